package main

// C09: replay of EvalPool.tla schedules into the real evaluation pool of the uniform marching
// cubes renderer (hooks in render/march3.go act as a scheduler gate), and determinism records.

import (
	"bytes"
	"crypto/sha256"
	"encoding/binary"
	"encoding/json"
	"fmt"
	"math"
	"math/rand"
	"os"
	"os/exec"
	"path/filepath"
	"runtime"
	"strings"
	"sync"
	"sync/atomic"
	"time"

	"github.com/deadsy/sdfx/render"
	"github.com/deadsy/sdfx/sdf"
	v2 "github.com/deadsy/sdfx/vec/v2"
	v3 "github.com/deadsy/sdfx/vec/v3"
)

type sstep struct {
	Op string `json:"op"` // S (main sends a batch), R w (worker receives), P w (processes), D w (wg.Done), W (wait returns)
	A  int    `json:"a"`
	B  int    `json:"b"`
}

type schedVec struct {
	W     int     `json:"w"`
	Steps []sstep `json:"steps"`
	Scene uniVec  `json:"scene"`
	Full  bool    `json:"full"`          // also return the projected mesh (judged by UniTrace)
	Gen   string  `json:"gen,omitempty"` // "seq" | "stall": the per-layer schedule is generated for the scene's batch count
}

// pgate parks the main goroutine and the workers at their hooks.
type pgate struct {
	mu    sync.Mutex
	cv    *sync.Cond
	main  string         // "" running | "send" | "wait"
	work  map[int]string // wid -> "idle" | "recv" | "done" | "" (running)
	mtok  int
	wtok  map[int]int
	free  bool // gate open: nobody parks
	nsend int
}

var theGate *pgate

func installPoolGate() *pgate {
	if theGate != nil {
		return theGate
	}
	g := &pgate{work: map[int]string{}, wtok: map[int]int{}}
	g.cv = sync.NewCond(&g.mu)
	theGate = g
	render.VerifHook = func(ev string, a, b, c int) {
		switch ev {
		case "ev.send":
			g.parkMain("send")
		case "ev.wait":
			g.parkMain("wait")
		case "w.idle":
			g.parkWorker(a, "idle")
		case "w.recv":
			g.parkWorker(a, "recv")
		case "w.done":
			g.parkWorker(a, "done")
		}
	}
	return g
}

func (g *pgate) parkMain(where string) {
	g.mu.Lock()
	defer g.mu.Unlock()
	if g.free {
		return
	}
	g.main = where
	g.cv.Broadcast()
	for g.mtok == 0 && !g.free {
		g.cv.Wait()
	}
	if g.mtok > 0 {
		g.mtok--
	}
	g.main = ""
	g.cv.Broadcast()
}

func (g *pgate) parkWorker(w int, where string) {
	g.mu.Lock()
	defer g.mu.Unlock()
	if g.free && where != "idle" {
		return
	}
	// idle workers of a free gate still pass: they block in the channel receive as in production
	if g.free {
		return
	}
	g.work[w] = where
	g.cv.Broadcast()
	for g.wtok[w] == 0 && !g.free {
		g.cv.Wait()
	}
	if g.wtok[w] > 0 {
		g.wtok[w]--
	}
	g.work[w] = ""
	g.cv.Broadcast()
}

func (g *pgate) wait(cond func() bool, d time.Duration) bool {
	deadline := time.Now().Add(d)
	t := time.AfterFunc(d, func() { g.mu.Lock(); g.cv.Broadcast(); g.mu.Unlock() })
	defer t.Stop()
	g.mu.Lock()
	defer g.mu.Unlock()
	for !cond() {
		if time.Now().After(deadline) {
			return false
		}
		g.cv.Wait()
	}
	return true
}

type schedObs struct {
	Ev       string    `json:"ev"`
	Dims     [3]int    `json:"dims"`
	Scene    sceneVec  `json:"scene"`
	Sched    string    `json:"sched"`
	W        int       `json:"w"`
	Realised bool      `json:"realised"`
	Note     string    `json:"note,omitempty"`
	Layers   int       `json:"layers"`
	Nt       int       `json:"nt"`
	Digest   int       `json:"digest"` // 31-bit digest of the triangle sequence
	Tris     []edgeTri `json:"tris"`
	Off      int       `json:"off"`
	Full     bool      `json:"full"`
}

func digestTris(ts []*sdf.Triangle3) int {
	h := sha256.New()
	var b [8]byte
	for _, t := range ts {
		for j := 0; j < 3; j++ {
			for _, x := range []float64{t[j].X, t[j].Y, t[j].Z} {
				binary.LittleEndian.PutUint64(b[:], math.Float64bits(x))
				h.Write(b[:])
			}
		}
	}
	s := h.Sum(nil)
	return int(binary.LittleEndian.Uint32(s[:4]) & 0x7fffffff)
}

func uniField(u uniVec) *sceneField {
	sc := sceneVec{K: u.K, Parts: u.Parts}
	a, b, c := float64(u.Dims[0]), float64(u.Dims[1]), float64(u.Dims[2])
	return &sceneField{sc: sc, unit: 1, scale: 1,
		bb: sdf.NewBox3(v3.Vec{X: (a + 1) / 2, Y: (b + 1) / 2, Z: (c + 1) / 2}, v3.Vec{X: a, Y: b, Z: c})}
}

const schedTimeout = 10 * time.Second

// genSteps builds a per-layer schedule for a layer of nb batches:
//
//	seq:   every batch is sent, received, processed and completed before the next one
//	stall: worker 1 receives the first batch and is held while worker 2 handles all the others,
//	       then worker 1 processes its batch (a long-stalled worker)
func genSteps(kind string, nb int) []sstep {
	var st []sstep
	if kind == "seq" {
		for b := 0; b < nb; b++ {
			st = append(st, sstep{"S", 1, 0}, sstep{"R", 1, 0}, sstep{"P", 1, 0}, sstep{"D", 1, 0})
		}
	} else {
		hold := 16 // the batch worker 1 sits on (a row inside the solid)
		if hold >= nb {
			hold = 0
		}
		for b := 0; b < nb; b++ {
			if b == hold {
				st = append(st, sstep{"S", 1, 0}, sstep{"R", 1, 0})
			} else {
				st = append(st, sstep{"S", 1, 0}, sstep{"R", 2, 0}, sstep{"P", 2, 0}, sstep{"D", 2, 0})
			}
		}
		st = append(st, sstep{"P", 1, 0}, sstep{"D", 1, 0})
	}
	return append(st, sstep{"W", 1, 0})
}

func runSched(g *pgate, v schedVec) schedObs {
	if v.Gen != "" {
		n := (v.Scene.Dims[1] + 2) * (v.Scene.Dims[2] + 2)
		v.Steps = genSteps(v.Gen, (n+99)/100)
	}
	o := schedObs{Ev: "sched", Dims: v.Scene.Dims, Scene: sceneVec{K: v.Scene.K, Parts: v.Scene.Parts}, W: v.W, Full: v.Full, Tris: []edgeTri{}}
	if v.Gen != "" {
		o.Sched = "generated:" + v.Gen
	} else {
		for _, s := range v.Steps {
			o.Sched += fmt.Sprintf("%s%d ", s.Op, s.A)
		}
	}
	f := uniField(v.Scene)
	var ts []*sdf.Triangle3
	fin := make(chan struct{})
	g.mu.Lock()
	g.free = false
	g.mu.Unlock()
	go func() {
		ts = render.ToTriangles(f, render.NewMarchingCubesUniform(maxi(v.Scene.Dims[0], v.Scene.Dims[1], v.Scene.Dims[2])))
		close(fin)
		g.mu.Lock()
		g.cv.Broadcast()
		g.mu.Unlock()
	}()
	finished := func() bool {
		select {
		case <-fin:
			return true
		default:
			return false
		}
	}
	o.Realised = true
	fail := func(s string) { o.Realised, o.Note = false, s }
layers:
	for !finished() {
		// main must arrive at the first send of the layer (or finish)
		if !g.wait(func() bool { return g.main == "send" || finished() }, schedTimeout) {
			fail("main did not reach the first send of a layer")
			break
		}
		if finished() {
			break
		}
		o.Layers++
		for i, st := range v.Steps {
			ok := true
			switch st.Op {
			case "S":
				ok = g.wait(func() bool { return g.main == "send" }, schedTimeout)
				if ok {
					g.mu.Lock()
					g.mtok++
					g.main = ""
					g.cv.Broadcast()
					g.mu.Unlock()
					ok = g.wait(func() bool { return g.main == "send" || g.main == "wait" }, schedTimeout)
				}
			case "W":
				ok = g.wait(func() bool { return g.main == "wait" }, schedTimeout)
				if ok {
					g.mu.Lock()
					g.mtok++
					g.main = ""
					g.cv.Broadcast()
					g.mu.Unlock()
					ok = g.wait(func() bool { return g.main == "send" || finished() }, schedTimeout)
				}
			case "R", "P", "D":
				from := map[string]string{"R": "idle", "P": "recv", "D": "done"}[st.Op]
				to := map[string]string{"R": "recv", "P": "done", "D": "idle"}[st.Op]
				w := st.A
				ok = g.wait(func() bool { return g.work[w] == from }, schedTimeout)
				if ok {
					g.mu.Lock()
					g.wtok[w]++
					g.work[w] = ""
					g.cv.Broadcast()
					g.mu.Unlock()
					ok = g.wait(func() bool { return g.work[w] == to }, schedTimeout)
				}
			}
			if !ok {
				fail(fmt.Sprintf("layer %d step %d (%s %d) not realised", o.Layers, i, st.Op, st.A))
				break layers
			}
		}
	}
	if !o.Realised {
		// let everything run to completion
		g.mu.Lock()
		g.free = true
		g.cv.Broadcast()
		g.mu.Unlock()
	}
	select {
	case <-fin:
	case <-time.After(60 * time.Second):
		o.Note += " render did not finish"
		return o
	}
	o.Nt = len(ts)
	o.Digest = digestTris(ts)
	if v.Full {
		o.Tris, o.Off = projectTrisToEdges(ts, v3.Vec{}, 1)
	}
	return o
}

func c09Replay(args []string) error {
	g := installPoolGate()
	n := 0
	readVectors("-", func(raw json.RawMessage) {
		var v schedVec
		if err := json.Unmarshal(raw, &v); err != nil {
			fatal("bad vector: %v", err)
		}
		o := runSched(g, v)
		emit(o)
		n++
		if !o.Realised {
			// workers may be left in an unknown state: a fresh process for the rest
			flush()
			os.Exit(4)
		}
	})
	if n == 0 {
		return fmt.Errorf("no vectors")
	}
	return nil
}

// ---- determinism records ----------------------------------------------------------

type detObs struct {
	Ev     string `json:"ev"`
	Key    string `json:"key"`    // model / renderer / resolution / sink
	Cond   string `json:"cond"`   // GOMAXPROCS, evaluation delays, history
	Digest int    `json:"digest"` // 31-bit digest of the output
	N      int    `json:"n"`
}

type slowSDF3 struct {
	s   sdf.SDF3
	rnd *rand.Rand
	mu  sync.Mutex
}

func (s *slowSDF3) Evaluate(p v3.Vec) float64 {
	s.mu.Lock()
	k := s.rnd.Intn(40)
	s.mu.Unlock()
	if k == 0 {
		time.Sleep(20 * time.Microsecond)
	} else if k < 4 {
		runtime.Gosched()
	}
	return s.s.Evaluate(p)
}
func (s *slowSDF3) BoundingBox() sdf.Box3 { return s.s.BoundingBox() }

// nanSDF3 returns NaN at a deterministic scatter of points (a field with holes, e.g. a division by zero on a
// symmetry plane): what the renderer makes of a NaN is its business, but it has to be the same every time.
type nanSDF3 struct{ s sdf.SDF3 }

func (s nanSDF3) Evaluate(p v3.Vec) float64 {
	h := math.Float64bits(p.X)*31 ^ math.Float64bits(p.Y)*131 ^ math.Float64bits(p.Z)*1031
	if (h>>17)%11 == 0 {
		return math.NaN()
	}
	return s.s.Evaluate(p)
}
func (s nanSDF3) BoundingBox() sdf.Box3 { return s.s.BoundingBox() }

// pauseSDF3 sleeps once, for a long time, at its n-th evaluation (a render that takes seconds).
type pauseSDF3 struct {
	s  sdf.SDF3
	n  int64
	d  time.Duration
	at int64
}

func (s *pauseSDF3) Evaluate(p v3.Vec) float64 {
	if atomic.AddInt64(&s.at, 1) == s.n {
		time.Sleep(s.d)
	}
	return s.s.Evaluate(p)
}
func (s *pauseSDF3) BoundingBox() sdf.Box3 { return s.s.BoundingBox() }

func fileDigest(path string) int {
	b, err := os.ReadFile(path)
	if err != nil {
		return -1
	}
	s := sha256.Sum256(b)
	return int(binary.LittleEndian.Uint32(s[:4]) & 0x7fffffff)
}

func digestInts(xs []int) int {
	h := sha256.New()
	var b [8]byte
	for _, x := range xs {
		binary.LittleEndian.PutUint64(b[:], uint64(x))
		h.Write(b[:])
	}
	s := h.Sum(nil)
	return int(binary.LittleEndian.Uint32(s[:4]) & 0x7fffffff)
}

var refDigest [2]int

func c09Record(args []string) error {
	dir, err := os.MkdirTemp("", "vh-c09-")
	if err != nil {
		return err
	}
	defer os.RemoveAll(dir)
	rnd := rand.New(rand.NewSource(seed()))
	sp, _ := sdf.Sphere3D(1)
	bx, _ := sdf.Box3D(v3.Vec{X: 1, Y: 2, Z: 1.5}, 0.2)
	un := sdf.Union3D(sdf.Transform3D(sp, sdf.Translate3d(v3.Vec{X: 0.7})), bx)
	ci, _ := sdf.Circle2D(1)
	models := []struct {
		name string
		s    sdf.SDF3
	}{{"sphere", sp}, {"union", un}}
	ncpu := runtime.NumCPU()
	procs := []int{1, 2, ncpu}
	if ncpu > 4 {
		procs = []int{1, 2, 3, ncpu}
	}
	defer runtime.GOMAXPROCS(ncpu)
	reps := 1
	if tier() == "thorough" {
		reps = 3
	}
	for rep := 0; rep < reps; rep++ {
		for _, m := range models {
			for _, cells := range []int{11, 23} {
				for _, gp := range procs {
					runtime.GOMAXPROCS(gp)
					for _, slow := range []bool{false, true} {
						var s sdf.SDF3 = m.s
						if slow {
							s = &slowSDF3{s: m.s, rnd: rand.New(rand.NewSource(rnd.Int63()))}
						}
						cond := fmt.Sprintf("gomaxprocs=%d slow=%v rep=%d", gp, slow, rep)
						// in-memory triangle sequence, uniform and octree
						ts := render.ToTriangles(s, render.NewMarchingCubesUniform(cells))
						emit(detObs{"det", fmt.Sprintf("%s/uniform/%d/mem", m.name, cells), cond, digestTris(ts), len(ts)})
						ts = render.ToTriangles(s, render.NewMarchingCubesOctree(cells))
						emit(detObs{"det", fmt.Sprintf("%s/octree/%d/mem", m.name, cells), cond, digestTris(ts), len(ts)})
						// files
						p := filepath.Join(dir, "a.stl")
						render.ToSTL(s, p, render.NewMarchingCubesUniform(cells))
						emit(detObs{"det", fmt.Sprintf("%s/uniform/%d/stl", m.name, cells), cond, fileDigest(p), 0})
						p = filepath.Join(dir, "a.3mf")
						render.To3MF(s, p, render.NewMarchingCubesUniform(cells))
						items, _ := read3MFContent(p)
						emit(detObs{"det", fmt.Sprintf("%s/uniform/%d/3mf", m.name, cells), cond, digestInts(items), len(items)})
					}
				}
			}
		}
		// a memoising 2D wrapper inside an extrusion: every z-column asks for the same 2D point, and columns that
		// straddle an evaluation batch are asked by two workers at once
		{
			star, _ := sdf.Polygon2D([]v2.Vec{{X: 2, Y: 0}, {X: 0.6, Y: 0.5}, {X: 0, Y: 2}, {X: -0.5, Y: 0.6}, {X: -2, Y: 0}, {X: -0.6, Y: -0.5}, {X: 0, Y: -2}, {X: 0.5, Y: -0.6}})
			for _, gp := range procs {
				runtime.GOMAXPROCS(gp)
				for k := 0; k < 4; k++ {
					ex := sdf.Extrude3D(sdf.Cache2D(star), 3)
					ts := render.ToTriangles(ex, render.NewMarchingCubesUniform(53))
					emit(detObs{"det", "cached-star/uniform/53/mem", fmt.Sprintf("gomaxprocs=%d k=%d rep=%d", gp, k, rep), digestTris(ts), len(ts)})
				}
			}
		}
		// an octree deep enough (> 2^8 cells) for any "large cubes first / in parallel" strategy to engage
		{
			rod, _ := sdf.Box3D(v3.Vec{X: 30, Y: 1, Z: 1}, 0.3)
			for _, gp := range []int{1, ncpu} {
				runtime.GOMAXPROCS(gp)
				for k := 0; k < 2; k++ {
					ts := render.ToTriangles(rod, render.NewMarchingCubesOctree(300))
					emit(detObs{"det", "rod/octree/300/mem", fmt.Sprintf("gomaxprocs=%d k=%d rep=%d", gp, k, rep), digestTris(ts), len(ts)})
				}
			}
			runtime.GOMAXPROCS(ncpu)
		}
		// a field with NaN holes, rendered by the uniform renderer under every GOMAXPROCS value and after different
		// earlier renders (whatever a worker keeps from its previous batch must not leak into this one)
		{
			holes := nanSDF3{sp}
			for _, gp := range procs {
				runtime.GOMAXPROCS(gp)
				for k := 0; k < 3; k++ {
					if k == 1 {
						render.ToTriangles(bx, render.NewMarchingCubesUniform(9)) // a different render in between
					}
					ts := render.ToTriangles(holes, render.NewMarchingCubesUniform(31))
					emit(detObs{"det", "sphere-with-nan-holes/uniform/31/mem", fmt.Sprintf("gomaxprocs=%d k=%d rep=%d", gp, k, rep), digestTris(ts), len(ts)})
				}
			}
			runtime.GOMAXPROCS(ncpu)
		}
		// a render that takes seconds (one evaluation sleeps 2.5 s in the middle): the files must be the files of
		// the fast render
		{
			p := filepath.Join(dir, "slow.stl")
			render.ToSTL(sp, p, render.NewMarchingCubesUniform(29))
			emit(detObs{"det", "sphere/uniform/29/stl", fmt.Sprintf("fast rep=%d", rep), fileDigest(p), 0})
			os.Remove(p)
			render.ToSTL(&pauseSDF3{s: sp, n: 9000, d: 2500 * time.Millisecond}, p, render.NewMarchingCubesUniform(29))
			emit(detObs{"det", "sphere/uniform/29/stl", fmt.Sprintf("one evaluation sleeps 2.5 s rep=%d", rep), fileDigest(p), 0})
		}
		// a quadtree deep enough (> 2^9 cells) for any "large squares in parallel" strategy to engage
		{
			plate := sdf.Box2D(v2.Vec{X: 3, Y: 2}, 0.3)
			for _, gp := range []int{1, 2, ncpu} {
				runtime.GOMAXPROCS(gp)
				for k := 0; k < 2; k++ {
					ls := collectLines(plate, render.NewMarchingSquaresQuadtree(700))
					xs := []int{}
					for _, l := range ls {
						for _, x := range []float64{l[0].X, l[0].Y, l[1].X, l[1].Y} {
							xs = append(xs, int(math.Float64bits(x)>>12))
						}
					}
					emit(detObs{"det", "plate/quadtree/700/mem", fmt.Sprintf("gomaxprocs=%d k=%d rep=%d", gp, k, rep), digestInts(xs), len(ls)})
				}
			}
			runtime.GOMAXPROCS(ncpu)
		}
		// concurrent renders run in a child process: a crash of the library there is an observation
		concurrentInChild(rep)
		// the same path written again after a longer file (an earlier, finer render)
		{
			p := filepath.Join(dir, "again.stl")
			render.ToSTL(sp, p, render.NewMarchingCubesOctree(23))
			render.ToSTL(sp, p, render.NewMarchingCubesUniform(11))
			emit(detObs{"det", "sphere/uniform/11/stl", fmt.Sprintf("over-a-longer-file rep=%d", rep), fileDigest(p), 0})
		}
		// 2D
		for _, gp := range procs {
			runtime.GOMAXPROCS(gp)
			p := filepath.Join(dir, "a.dxf")
			render.ToDXF(ci, p, render.NewMarchingSquaresQuadtree(60))
			ls, _, _ := readDXFLines(p)
			xs := []int{}
			for _, l := range ls {
				for _, x := range l {
					xs = append(xs, int(math.Float64bits(x)>>12))
				}
			}
			emit(detObs{"det", "circle/quadtree/60/dxf", fmt.Sprintf("gomaxprocs=%d rep=%d", gp, rep), digestInts(xs), len(ls)})
			emit(detObs{"det", "circle/quadtree/60/dxf-bytes", fmt.Sprintf("gomaxprocs=%d rep=%d", gp, rep), fileDigest(p), 0})
			p = filepath.Join(dir, "a.svg")
			render.ToSVG(ci, p, render.NewMarchingSquaresUniform(40))
			emit(detObs{"det", "circle/uniform/40/svg", fmt.Sprintf("gomaxprocs=%d rep=%d", gp, rep), fileDigest(p), 0})
			// a model with no outline at all (everything removed): the file, read the moment the call returns, is the
			// same empty drawing whether the path is fresh or holds an earlier render of something else
			big, _ := sdf.Circle2D(2)
			empty := sdf.Difference2D(ci, big)
			for k, prep := range []string{"fresh-path", "over-an-earlier-render"} {
				pd := filepath.Join(dir, fmt.Sprintf("empty-%d-%d-%d.dxf", rep, gp, k))
				ps := filepath.Join(dir, fmt.Sprintf("empty-%d-%d-%d.svg", rep, gp, k))
				if k == 1 {
					render.ToDXF(ci, pd, render.NewMarchingSquaresQuadtree(30))
					render.ToSVG(ci, ps, render.NewMarchingSquaresQuadtree(30))
				}
				render.ToDXF(empty, pd, render.NewMarchingSquaresQuadtree(30))
				emit(detObs{"det", "empty/quadtree/30/dxf-bytes", fmt.Sprintf("%s gomaxprocs=%d rep=%d", prep, gp, rep), fileDigest(pd), 0})
				render.ToSVG(empty, ps, render.NewMarchingSquaresUniform(30))
				emit(detObs{"det", "empty/uniform/30/svg", fmt.Sprintf("%s gomaxprocs=%d rep=%d", prep, gp, rep), fileDigest(ps), 0})
			}
		}
	}
	return nil
}

// concurrentInChild runs `c09-concurrent <rep>` and forwards its records; if the child dies (runtime
// fault such as "concurrent map writes", panic) a record with digest -1 is emitted instead.
func concurrentInChild(rep int) {
	cmd := exec.Command(os.Args[0], "c09-concurrent", fmt.Sprint(rep))
	var so, se bytes.Buffer
	cmd.Stdout, cmd.Stderr = &so, &se
	err := cmd.Run()
	for _, l := range strings.Split(so.String(), "\n") {
		if strings.TrimSpace(l) != "" {
			outMu.Lock()
			outW.WriteString(l + "\n")
			outMu.Unlock()
		}
	}
	if err != nil {
		fault := "child failed: " + err.Error()
		dump := se.String()
		for _, mark := range []string{"fatal error: ", "panic: "} {
			if i := strings.Index(dump, mark); i >= 0 {
				end := strings.IndexByte(dump[i:], '\n')
				if end < 0 {
					end = len(dump) - i
				}
				fault = dump[i : i+end]
				break
			}
		}
		emit(detObs{"det", "concurrent-renders", fmt.Sprintf("rep=%d %s", rep, fault), -1, 0})
	}
}

func c09Concurrent(args []string) error {
	rep := 0
	if len(args) > 0 {
		fmt.Sscanf(args[0], "%d", &rep)
	}
	sp, _ := sdf.Sphere3D(1)
	bx, _ := sdf.Box3D(v3.Vec{X: 1, Y: 2, Z: 1.5}, 0.2)
	un := sdf.Union3D(sdf.Transform3D(sp, sdf.Translate3d(v3.Vec{X: 0.7})), bx)
	models := []struct {
		name string
		s    sdf.SDF3
	}{{"sphere", sp}, {"union", un}}
	{
		// concurrent renders in one process
		var wg sync.WaitGroup
		res := make([][]*sdf.Triangle3, 4)
		for i := 0; i < 4; i++ {
			wg.Add(1)
			go func(i int) {
				defer wg.Done()
				res[i] = render.ToTriangles(models[i%2].s, render.NewMarchingCubesUniform(11+12*(i/2)))
			}(i)
		}
		wg.Wait()
		for i := 0; i < 4; i++ {
			emit(detObs{"det", fmt.Sprintf("%s/uniform/%d/mem", models[i%2].name, 11+12*(i/2)), fmt.Sprintf("concurrent rep=%d", rep), digestTris(res[i]), len(res[i])})
		}
		// larger concurrent uniform renders of different models and resolutions, released together: sequential
		// references first, then three rounds of six overlapping renders
		{
			cellsOf := func(i int) int { return 37 + 8*(i/2) }
			for i := 0; i < 6; i++ {
				ts := render.ToTriangles(models[i%2].s, render.NewMarchingCubesUniform(cellsOf(i)))
				emit(detObs{"det", fmt.Sprintf("%s/uniform/%d/mem", models[i%2].name, cellsOf(i)), fmt.Sprintf("sequential-ref rep=%d", rep), digestTris(ts), len(ts)})
			}
			for round := 0; round < 3; round++ {
				big := make([][]*sdf.Triangle3, 6)
				start := make(chan struct{})
				for i := 0; i < 6; i++ {
					wg.Add(1)
					go func(i int) {
						defer wg.Done()
						<-start
						big[i] = render.ToTriangles(models[i%2].s, render.NewMarchingCubesUniform(cellsOf(i)))
					}(i)
				}
				close(start)
				wg.Wait()
				for i := 0; i < 6; i++ {
					emit(detObs{"det", fmt.Sprintf("%s/uniform/%d/mem", models[i%2].name, cellsOf(i)), fmt.Sprintf("concurrent-big round=%d rep=%d", round, rep), digestTris(big[i]), len(big[i])})
				}
			}
		}
		// the same small octree render many times over (a hand-off that fails a few times in a thousand)
		{
			for _, gp := range []int{4, runtime.NumCPU()} {
				runtime.GOMAXPROCS(gp)
				first, bad, n := 0, 0, 1200
				for k := 0; k < n; k++ {
					ts := render.ToTriangles(models[0].s, render.NewMarchingCubesOctree(20+10*(k%2)))
					d := digestTris(ts) ^ (k % 2)
					if k < 2 {
						emit(detObs{"det", fmt.Sprintf("sphere/octree/%d/mem", 20+10*(k%2)), fmt.Sprintf("repeat k=%d gomaxprocs=%d rep=%d", k, gp, rep), digestTris(ts), len(ts)})
					}
					_ = first
					_ = d
					if k >= 2 {
						// compare with the first render of the same resolution; report only differing ones
						ref := refDigest[k%2]
						if digestTris(ts) != ref {
							bad++
							if bad <= 3 {
								emit(detObs{"det", fmt.Sprintf("sphere/octree/%d/mem", 20+10*(k%2)), fmt.Sprintf("repeat k=%d gomaxprocs=%d rep=%d", k, gp, rep), digestTris(ts), len(ts)})
							}
						}
					} else {
						refDigest[k%2] = digestTris(ts)
					}
				}
			}
			runtime.GOMAXPROCS(runtime.NumCPU())
		}
		// files written at the same time: two STL streams and a 3MF of different models, against the files of the
		// same renders done one after the other
		{
			dir, err := os.MkdirTemp("", "vh-c09c-")
			if err == nil {
				defer os.RemoveAll(dir)
				type job struct {
					key string
					run func(path string)
				}
				jobs := []job{
					{"sphere/uniform/41/stl", func(p string) { render.ToSTL(models[0].s, p, render.NewMarchingCubesUniform(41)) }},
					{"union/octree/44/stl", func(p string) { render.ToSTL(models[1].s, p, render.NewMarchingCubesOctree(44)) }},
					{"union/uniform/33/stl", func(p string) { render.ToSTL(models[1].s, p, render.NewMarchingCubesUniform(33)) }},
				}
				for i, j := range jobs {
					p := filepath.Join(dir, fmt.Sprintf("ref%d.stl", i))
					j.run(p)
					emit(detObs{"det", j.key, fmt.Sprintf("sequential-ref rep=%d", rep), fileDigest(p), 0})
				}
				for round := 0; round < 3; round++ {
					start := make(chan struct{})
					for i, j := range jobs {
						wg.Add(1)
						go func(i int, j job) {
							defer wg.Done()
							<-start
							j.run(filepath.Join(dir, fmt.Sprintf("c%d.stl", i)))
						}(i, j)
					}
					close(start)
					wg.Wait()
					for i, j := range jobs {
						emit(detObs{"det", j.key, fmt.Sprintf("concurrent-files round=%d rep=%d", round, rep), fileDigest(filepath.Join(dir, fmt.Sprintf("c%d.stl", i))), 0})
					}
				}
			}
		}
		// concurrent octree renders of different models and resolutions; one of them is slow, so that
		// the others run start to end while it is in the middle of its render
		res = make([][]*sdf.Triangle3, 4)
		for i := 0; i < 4; i++ {
			wg.Add(1)
			go func(i int) {
				defer wg.Done()
				var s sdf.SDF3 = models[i%2].s
				if i == 0 {
					s = &slowSDF3{s: s, rnd: rand.New(rand.NewSource(int64(i) + 1))}
				}
				res[i] = render.ToTriangles(s, render.NewMarchingCubesOctree(11+12*(i/2)))
			}(i)
		}
		wg.Wait()
		for i := 0; i < 4; i++ {
			emit(detObs{"det", fmt.Sprintf("%s/octree/%d/mem", models[i%2].name, 11+12*(i/2)), fmt.Sprintf("concurrent-octree rep=%d", rep), digestTris(res[i]), len(res[i])})
		}
	}
	return nil
}

func init() {
	register("c09-concurrent", c09Concurrent)
	register("c09-replay", c09Replay)
	register("c09-record", c09Record)
}
