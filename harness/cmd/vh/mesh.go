package main

import (
	"math"

	"github.com/deadsy/sdfx/sdf"
	v3 "github.com/deadsy/sdfx/vec/v3"
)

// vertexIndex identifies points that coincide within tol (union by grid hash + neighbour search).
type vertexIndex struct {
	tol  float64
	grid map[[3]int64][]int
	pts  [][3]float64
}

func newVertexIndex(tol float64) *vertexIndex {
	return &vertexIndex{tol: tol, grid: map[[3]int64][]int{}}
}

func (vi *vertexIndex) id(p [3]float64) int {
	var c [3]int64
	for a := 0; a < 3; a++ {
		c[a] = int64(math.Floor(p[a] / vi.tol))
	}
	for dx := int64(-1); dx <= 1; dx++ {
		for dy := int64(-1); dy <= 1; dy++ {
			for dz := int64(-1); dz <= 1; dz++ {
				for _, k := range vi.grid[[3]int64{c[0] + dx, c[1] + dy, c[2] + dz}] {
					q := vi.pts[k]
					if math.Abs(q[0]-p[0]) <= vi.tol && math.Abs(q[1]-p[1]) <= vi.tol && math.Abs(q[2]-p[2]) <= vi.tol {
						return k
					}
				}
			}
		}
	}
	k := len(vi.pts)
	vi.pts = append(vi.pts, p)
	vi.grid[c] = append(vi.grid[c], k)
	return k
}

// meshObs is the projection of a real triangle mesh into the abstract domain of MeshTrace.tla.
type meshObs struct {
	Ev      string   `json:"ev"`
	R       string   `json:"r"`              // renderer
	Dims    []int    `json:"dims,omitempty"` // world
	Base    int      `json:"base,omitempty"`
	Code    int64    `json:"code"`
	Aligned bool     `json:"aligned"` // every vertex on the doubled integer lattice
	Nt      int      `json:"nt"`
	Tris    [][3]int `json:"tris"` // vertex ids (1-based), emission order
	Pos     [][3]int `json:"pos"`  // doubled lattice coordinates per vertex id (if aligned)
	Vol     int64    `json:"vol"`  // measured 6*volume in doubled cell units, rounded (saturating)
	Off     int64    `json:"off"`  // field evaluations that were not on a lattice point
	Evals   int64    `json:"evals"`
	Outside int      `json:"outside"` // vertices outside the sampled box (by more than 1e-9 cell)
	Name    string   `json:"name,omitempty"`
}

// projectMesh maps triangles to vertex ids; coordinates are taken in cell units relative to origin.
func projectMesh(ts []*sdf.Triangle3, origin v3.Vec, cell float64, lo, hi [3]float64) meshObs {
	vi := newVertexIndex(1e-6)
	o := meshObs{Ev: "mesh3", Aligned: true, Tris: [][3]int{}, Pos: [][3]int{}}
	vol := 0.0
	for _, t := range ts {
		var ids [3]int
		var q [3][3]float64
		for j := 0; j < 3; j++ {
			q[j] = [3]float64{(t[j].X - origin.X) / cell, (t[j].Y - origin.Y) / cell, (t[j].Z - origin.Z) / cell}
			ids[j] = vi.id(q[j]) + 1
			for a := 0; a < 3; a++ {
				if q[j][a] < lo[a]-1e-9 || q[j][a] > hi[a]+1e-9 {
					o.Outside++
				}
			}
		}
		o.Tris = append(o.Tris, ids)
		a, b, c := q[0], q[1], q[2]
		vol += 8 * (a[0]*(b[1]*c[2]-b[2]*c[1]) - a[1]*(b[0]*c[2]-b[2]*c[0]) + a[2]*(b[0]*c[1]-b[1]*c[0]))
	}
	for _, p := range vi.pts {
		var ip [3]int
		for a := 0; a < 3; a++ {
			d := 2 * p[a]
			r := math.Round(d)
			if math.Abs(d-r) > 1e-9 {
				o.Aligned = false
			}
			ip[a] = int(r)
		}
		o.Pos = append(o.Pos, ip)
	}
	if !o.Aligned {
		o.Pos = [][3]int{}
	}
	o.Nt = len(ts)
	if math.Abs(vol) > 1e9 {
		vol = math.Copysign(1e9, vol)
	}
	o.Vol = int64(math.Round(vol))
	return o
}
