package main

// Catalogue of sdf-package shapes with real-valued (seeded) parameters for the measured probes of
// C01 (and the Lipschitz samples of C03): rounded primitives, arbitrary rotations, non-uniform scale,
// the extrusion family, loft, revolve, slices, arrays, rotate-copies - each also placed away from the
// origin and in negative quadrants.

import (
	"fmt"
	"math"
	"math/rand"

	"github.com/deadsy/sdfx/sdf"
	v2 "github.com/deadsy/sdfx/vec/v2"
	"github.com/deadsy/sdfx/vec/v2i"
	v3 "github.com/deadsy/sdfx/vec/v3"
	"github.com/deadsy/sdfx/vec/v3i"
)

type catBuilder struct {
	out []probeShape
	rnd *rand.Rand
}

func (c *catBuilder) add2(ctor, name string, f func() (sdf.SDF2, error)) {
	ps := probeShape{Ctor: ctor, Name: name}
	func() {
		defer func() {
			if r := recover(); r != nil {
				ps.Err = fmt.Sprintf("panic: %v", r)
			}
		}()
		s, err := f()
		if err != nil {
			ps.Err = err.Error()
		} else if s == nil {
			ps.Err = "constructor returned nil"
		} else {
			ps.S2 = s
		}
	}()
	c.out = append(c.out, ps)
}

func (c *catBuilder) add3(ctor, name string, f func() (sdf.SDF3, error)) {
	ps := probeShape{Ctor: ctor, Name: name}
	func() {
		defer func() {
			if r := recover(); r != nil {
				ps.Err = fmt.Sprintf("panic: %v", r)
			}
		}()
		s, err := f()
		if err != nil {
			ps.Err = err.Error()
		} else if s == nil {
			ps.Err = "constructor returned nil"
		} else {
			ps.S3 = s
		}
	}()
	c.out = append(c.out, ps)
}

func (c *catBuilder) u(a, b float64) float64 { return a + (b-a)*c.rnd.Float64() }

// placements: away from the origin, negative quadrants, rotated, mirrored
func (c *catBuilder) place2(i int) (sdf.M33, string) {
	switch i % 5 {
	case 0:
		return sdf.Identity2d(), "origin"
	case 1:
		return sdf.Translate2d(v2.Vec{X: -5, Y: -5}), "at(-5,-5)"
	case 2:
		return sdf.Translate2d(v2.Vec{X: c.u(-8, -4), Y: c.u(2, 6)}).Mul(sdf.Rotate2d(c.u(0, 6.28))), "neg-x-rot"
	case 3:
		return sdf.Translate2d(v2.Vec{X: c.u(3, 7), Y: c.u(-8, -3)}).Mul(sdf.Rotate2d(c.u(0, 6.28))), "neg-y-rot"
	}
	return sdf.MirrorY().Mul(sdf.Translate2d(v2.Vec{X: c.u(2, 6), Y: c.u(-6, -2)})), "mirrored"
}

func (c *catBuilder) place3(i int) (sdf.M44, string) {
	switch i % 5 {
	case 0:
		return sdf.Identity3d(), "origin"
	case 1:
		return sdf.Translate3d(v3.Vec{X: -5, Y: -5, Z: -3}), "at(-5,-5,-3)"
	case 2:
		return sdf.Translate3d(v3.Vec{X: c.u(-8, -4), Y: c.u(2, 6), Z: c.u(-4, 4)}).Mul(
			sdf.Rotate3d(v3.Vec{X: c.u(-1, 1), Y: c.u(-1, 1), Z: c.u(0.2, 1)}, c.u(0, 6.28))), "neg-x-rot"
	case 3:
		return sdf.Translate3d(v3.Vec{X: c.u(3, 7), Y: c.u(-8, -3), Z: c.u(-6, -2)}).Mul(sdf.RotateX(c.u(0, 6.28))).Mul(sdf.RotateZ(c.u(0, 6.28))), "neg-yz-rot"
	}
	return sdf.MirrorXZ().Mul(sdf.Translate3d(v3.Vec{X: c.u(2, 6), Y: c.u(-6, -2), Z: c.u(1, 3)})), "mirrored"
}

// a profile (2D operand), i selects the kind
func (c *catBuilder) profile(i int) (sdf.SDF2, string) {
	switch i % 6 {
	case 0:
		return sdf.Box2D(v2.Vec{X: c.u(1, 4), Y: c.u(1, 3)}, 0), "box"
	case 1:
		sx, sy := c.u(1.5, 4), c.u(1.5, 3)
		return sdf.Box2D(v2.Vec{X: sx, Y: sy}, c.u(0.05, 0.49)*math.Min(sx, sy)), "roundbox"
	case 2:
		s, _ := sdf.Circle2D(c.u(0.5, 2))
		return s, "circle"
	case 3:
		return sdf.Line2D(c.u(1, 4), c.u(0.2, 0.8)), "line"
	case 4:
		s, _ := sdf.Polygon2D(sdf.Nagon(3+c.rnd.Intn(5), c.u(1, 2.5)))
		return s, "nagon"
	}
	// L-shaped polygon
	a, b := c.u(2, 4), c.u(0.5, 1.2)
	s, _ := sdf.Polygon2D([]v2.Vec{{X: 0, Y: 0}, {X: a, Y: 0}, {X: a, Y: b}, {X: b, Y: b}, {X: b, Y: a}, {X: 0, Y: a}})
	return s, "L"
}

func (c *catBuilder) placedProfile(i int) (sdf.SDF2, string) {
	p, pn := c.profile(i)
	m, mn := c.place2(i/6 + i)
	return sdf.Transform2D(p, m), pn + "/" + mn
}

func (c *catBuilder) solid(i int) (sdf.SDF3, string) {
	switch i % 6 {
	case 0:
		s, _ := sdf.Box3D(v3.Vec{X: c.u(1, 4), Y: c.u(1, 3), Z: c.u(1, 3)}, 0)
		return s, "box"
	case 1:
		s, _ := sdf.Box3D(v3.Vec{X: c.u(2, 4), Y: c.u(2, 3), Z: c.u(2, 3)}, c.u(0.1, 0.9))
		return s, "roundbox"
	case 2:
		s, _ := sdf.Sphere3D(c.u(0.5, 2))
		return s, "sphere"
	case 3:
		r, h := c.u(0.5, 2), c.u(2, 5)
		s, _ := sdf.Cylinder3D(h, r, c.u(0, 1)*math.Min(r, h/2))
		return s, "cylinder"
	case 4:
		r := c.u(0.5, 1.5)
		s, _ := sdf.Capsule3D(c.u(3.1, 6), r)
		return s, "capsule"
	}
	h := c.u(2, 5)
	s, _ := sdf.Cone3D(h, c.u(0.8, 2.5), c.u(0.3, 2.5), c.u(0, 0.3))
	return s, "cone"
}

func (c *catBuilder) placedSolid(i int) (sdf.SDF3, string) {
	s, sn := c.solid(i)
	m, mn := c.place3(i/6 + i)
	return sdf.Transform3D(s, m), sn + "/" + mn
}

// sdfCatalogue builds k parameter sets per constructor.
func sdfCatalogue(seed int64, k int) []probeShape {
	c := &catBuilder{rnd: rand.New(rand.NewSource(seed))}
	for i := 0; i < k*5; i++ {
		i := i
		nm := func(s string) string { return fmt.Sprintf("%s#%d", s, i) }
		// ---- 2D primitives and combinators
		c.add2("Box2D", nm("rounded"), func() (sdf.SDF2, error) {
			sx, sy := c.u(0.5, 5), c.u(0.5, 5)
			return sdf.Box2D(v2.Vec{X: sx, Y: sy}, c.u(0, 0.5)*math.Min(sx, sy)), nil
		})
		c.add2("Line2D", nm(""), func() (sdf.SDF2, error) { return sdf.Line2D(c.u(0.1, 6), c.u(0.05, 1)), nil })
		c.add2("Polygon2D", nm("star"), func() (sdf.SDF2, error) {
			n := 5 + c.rnd.Intn(6)
			v := make([]v2.Vec, 0, 2*n)
			for j := 0; j < 2*n; j++ {
				r := c.u(2, 3)
				if j%2 == 1 {
					r = c.u(0.7, 1.5)
				}
				a := math.Pi * float64(j) / float64(n)
				v = append(v, v2.Vec{X: r*math.Cos(a) + 3, Y: r*math.Sin(a) - 4})
			}
			return sdf.Polygon2D(v)
		})
		p, pn := c.placedProfile(i)
		c.add2("Transform2D", nm("rot:"+pn), func() (sdf.SDF2, error) {
			return sdf.Transform2D(p, sdf.Translate2d(v2.Vec{X: c.u(-6, 6), Y: c.u(-6, 6)}).Mul(sdf.Rotate2d(c.u(-7, 7)))), nil
		})
		c.add2("Transform2D", nm("scale:"+pn), func() (sdf.SDF2, error) {
			sx := c.u(0.3, 2.5)
			if i%2 == 1 {
				sx = -sx
			}
			return sdf.Transform2D(p, sdf.Rotate2d(c.u(0, 3)).Mul(sdf.Scale2d(v2.Vec{X: sx, Y: c.u(0.3, 2.5)}))), nil
		})
		c.add2("ScaleUniform2D", nm(pn), func() (sdf.SDF2, error) { return sdf.ScaleUniform2D(p, c.u(0.3, 2.5)), nil })
		c.add2("Offset2D", nm(pn), func() (sdf.SDF2, error) { return sdf.Offset2D(p, c.u(-0.2, 1.5)), nil })
		c.add2("Cut2D", nm(pn), func() (sdf.SDF2, error) {
			b := p.BoundingBox()
			return sdf.Cut2D(p, b.Center().Add(v2.Vec{X: c.u(-0.3, 0.3), Y: c.u(-0.3, 0.3)}), v2.Vec{X: c.u(-1, 1), Y: c.u(-1, 1)}), nil
		})
		c.add2("Elongate2D", nm(pn), func() (sdf.SDF2, error) { return sdf.Elongate2D(p, v2.Vec{X: c.u(-3, 3), Y: c.u(0, 2)}), nil })
		c.add2("Array2D", nm(pn), func() (sdf.SDF2, error) {
			return sdf.Array2D(p, v2i.Vec{X: 1 + c.rnd.Intn(3), Y: 1 + c.rnd.Intn(3)}, v2.Vec{X: c.u(-5, 5), Y: c.u(-5, 5)}), nil
		})
		c.add2("Array2D", "dense:"+nm(pn), func() (sdf.SDF2, error) {
			sz := p.BoundingBox().Size()
			return sdf.Array2D(p, v2i.Vec{X: 3 + c.rnd.Intn(5), Y: 1 + c.rnd.Intn(4)}, v2.Vec{X: c.u(0.15, 0.4) * sz.X, Y: c.u(-0.4, 0.4) * sz.Y}), nil
		})
		c.add2("RotateUnion2D", nm(pn), func() (sdf.SDF2, error) {
			n := 2 + c.rnd.Intn(6)
			return sdf.RotateUnion2D(p, n, sdf.Rotate2d(c.u(0.2, 1)*sdf.Tau/float64(n))), nil
		})
		c.add2("RotateCopy2D", nm(pn), func() (sdf.SDF2, error) { return sdf.RotateCopy2D(p, 1+c.rnd.Intn(8)), nil })
		c.add2("RotateCopy2D", nm("one-sided-block"), func() (sdf.SDF2, error) {
			// a block that fills its box and hangs to one side of the axis it sits on: the farthest corner of its box
			// is an off-diagonal one, (Max.X, Min.Y) or (Min.X, Max.Y); odd and even numbers of copies
			w, h := c.u(1, 3), c.u(1.5, 4)
			blk := sdf.Box2D(v2.Vec{X: w, Y: h}, 0)
			sx, sy := float64(1-2*(i&1)), float64(1-2*((i>>1)&1))
			ctr := v2.Vec{X: sx * (c.u(2, 6) + w/2), Y: -sy * c.u(0.3, 0.5) * h}
			return sdf.RotateCopy2D(sdf.Transform2D(blk, sdf.Translate2d(ctr)), 3+c.rnd.Intn(9)), nil
		})
		c.add2("ScaleUniform2D", nm("stacked:"+pn), func() (sdf.SDF2, error) {
			return sdf.ScaleUniform2D(sdf.ScaleUniform2D(p, c.u(0.3, 2.5)), c.u(0.3, 2.5)), nil
		})
		c.add2("Offset2D", nm("stacked:"+pn), func() (sdf.SDF2, error) { return sdf.Offset2D(sdf.Offset2D(p, c.u(0, 0.6)), c.u(0, 0.6)), nil })
		c.add2("Transform2D", nm("rot:stacked:"+pn), func() (sdf.SDF2, error) {
			m := func() sdf.M33 {
				return sdf.Translate2d(v2.Vec{X: c.u(-3, 3), Y: c.u(-3, 3)}).Mul(sdf.Rotate2d(c.u(-7, 7)))
			}
			return sdf.Transform2D(sdf.Transform2D(p, m()), m()), nil
		})
		q, qn := c.placedProfile(i + 3)
		c.add2("Union2D", nm(pn+"+"+qn), func() (sdf.SDF2, error) { return sdf.Union2D(p, q), nil })
		c.add2("Difference2D", nm(pn+"-"+qn), func() (sdf.SDF2, error) { return sdf.Difference2D(p, q), nil })
		c.add2("Intersect2D", nm(pn+"&"+qn), func() (sdf.SDF2, error) { return sdf.Intersect2D(p, q), nil })
		c.add2("Cache2D", nm(pn), func() (sdf.SDF2, error) { return sdf.Cache2D(p), nil })
		// ---- 3D primitives
		c.add3("Box3D", nm("rounded"), func() (sdf.SDF3, error) {
			sx, sy, sz := c.u(0.5, 5), c.u(0.5, 5), c.u(0.5, 5)
			return sdf.Box3D(v3.Vec{X: sx, Y: sy, Z: sz}, c.u(0, 0.5)*math.Min(sx, math.Min(sy, sz)))
		})
		c.add3("Cylinder3D", nm("rounded"), func() (sdf.SDF3, error) {
			r, h := c.u(0.3, 3), c.u(0.5, 6)
			return sdf.Cylinder3D(h, r, c.u(0, 1)*math.Min(r, h/2))
		})
		c.add3("Capsule3D", nm(""), func() (sdf.SDF3, error) {
			r := c.u(0.3, 2)
			return sdf.Capsule3D(2*r+c.u(0, 4), r)
		})
		c.add3("Cone3D", nm(""), func() (sdf.SDF3, error) {
			h := c.u(1, 6)
			return sdf.Cone3D(h, c.u(0.2, 3), c.u(0, 3), c.u(0, 0.2)*h)
		})
		// ---- 3D combinators over placed solids
		s, sn := c.placedSolid(i)
		t, tn := c.placedSolid(i + 2)
		c.add3("Transform3D", nm("rot:"+sn), func() (sdf.SDF3, error) {
			return sdf.Transform3D(s, sdf.Translate3d(v3.Vec{X: c.u(-5, 5), Y: c.u(-5, 5), Z: c.u(-5, 5)}).Mul(
				sdf.Rotate3d(v3.Vec{X: c.u(-1, 1), Y: c.u(-1, 1), Z: c.u(-1, 1)}, c.u(-7, 7)))), nil
		})
		c.add3("Transform3D", nm("scale:"+sn), func() (sdf.SDF3, error) {
			sz := c.u(0.3, 2)
			if i%2 == 0 {
				sz = -sz
			}
			return sdf.Transform3D(s, sdf.RotateY(c.u(0, 3)).Mul(sdf.Scale3d(v3.Vec{X: c.u(0.3, 2), Y: c.u(0.3, 2), Z: sz}))), nil
		})
		c.add3("ScaleUniform3D", nm(sn), func() (sdf.SDF3, error) { return sdf.ScaleUniform3D(s, c.u(0.3, 2.5)), nil })
		c.add3("Offset3D", nm(sn), func() (sdf.SDF3, error) { return sdf.Offset3D(s, c.u(-0.1, 1)), nil })
		// the same wrapper directly on its own result (a constructor that folds a nested node into one must
		// combine every parameter of the two)
		c.add3("ScaleUniform3D", nm("stacked:"+sn), func() (sdf.SDF3, error) {
			return sdf.ScaleUniform3D(sdf.ScaleUniform3D(s, c.u(0.3, 2.5)), c.u(0.3, 2.5)), nil
		})
		c.add3("Offset3D", nm("stacked:"+sn), func() (sdf.SDF3, error) { return sdf.Offset3D(sdf.Offset3D(s, c.u(0, 0.6)), c.u(0, 0.6)), nil })
		c.add3("Transform3D", nm("rot:stacked:"+sn), func() (sdf.SDF3, error) {
			m := func() sdf.M44 {
				return sdf.Translate3d(v3.Vec{X: c.u(-3, 3), Y: c.u(-3, 3), Z: c.u(-3, 3)}).Mul(
					sdf.Rotate3d(v3.Vec{X: c.u(-1, 1), Y: c.u(-1, 1), Z: c.u(-1, 1)}, c.u(-7, 7)))
			}
			return sdf.Transform3D(sdf.Transform3D(s, m()), m()), nil
		})
		c.add3("Elongate3D", nm("stacked:"+sn), func() (sdf.SDF3, error) {
			return sdf.Elongate3D(sdf.Elongate3D(s, v3.Vec{X: c.u(0, 2)}), v3.Vec{Y: c.u(0, 2), Z: c.u(0, 1)}), nil
		})
		c.add3("Array3D", nm("stacked:"+sn), func() (sdf.SDF3, error) {
			return sdf.Array3D(sdf.Array3D(s, v3i.Vec{X: 2, Y: 1, Z: 1}, v3.Vec{X: c.u(2, 5)}), v3i.Vec{X: 1, Y: 2, Z: 2}, v3.Vec{Y: c.u(-5, 5), Z: c.u(2, 4)}), nil
		})
		c.add3("RotateUnion3D", nm("stacked:"+sn), func() (sdf.SDF3, error) {
			return sdf.RotateUnion3D(sdf.RotateUnion3D(s, 2, sdf.RotateZ(c.u(0.3, 1.2))), 3, sdf.RotateX(c.u(0.5, 2))), nil
		})
		c.add3("Shell3D", nm(sn), func() (sdf.SDF3, error) { return sdf.Shell3D(s, c.u(0.05, 0.8)) })
		c.add3("Cut3D", nm(sn), func() (sdf.SDF3, error) {
			return sdf.Cut3D(s, s.BoundingBox().Center(), v3.Vec{X: c.u(-1, 1), Y: c.u(-1, 1), Z: c.u(-1, 1)}), nil
		})
		c.add3("Elongate3D", nm(sn), func() (sdf.SDF3, error) {
			return sdf.Elongate3D(s, v3.Vec{X: c.u(-2, 2), Y: c.u(0, 2), Z: c.u(0, 1)}), nil
		})
		c.add3("Array3D", nm(sn), func() (sdf.SDF3, error) {
			return sdf.Array3D(s, v3i.Vec{X: 1 + c.rnd.Intn(2), Y: 1 + c.rnd.Intn(3), Z: 1 + c.rnd.Intn(2)},
				v3.Vec{X: c.u(-5, 5), Y: c.u(-5, 5), Z: c.u(-4, 4)}), nil
		})
		c.add3("Array3D", "dense:"+nm(sn), func() (sdf.SDF3, error) {
			// a hatch of long slanted rods at a pitch far below their length (each part spans many steps), and
			// the operand itself at a pitch below its size
			if c.rnd.Intn(2) == 0 {
				rod, _ := sdf.Box3D(v3.Vec{X: c.u(5, 8), Y: 0.4, Z: 0.4}, 0)
				part := sdf.Transform3D(rod, sdf.Translate3d(v3.Vec{X: c.u(-1, 1), Y: c.u(-1, 1)}).Mul(sdf.RotateZ(c.u(0.3, 1.2))))
				return sdf.Array3D(part, v3i.Vec{X: 4 + c.rnd.Intn(4), Y: 1 + c.rnd.Intn(3), Z: 1}, v3.Vec{X: c.u(0.7, 1.1), Y: c.u(0.8, 1.5), Z: 1}), nil
			}
			sz := s.BoundingBox().Size()
			return sdf.Array3D(s, v3i.Vec{X: 3 + c.rnd.Intn(4), Y: 1 + c.rnd.Intn(4), Z: 1 + c.rnd.Intn(2)},
				v3.Vec{X: c.u(0.15, 0.4) * sz.X, Y: c.u(-0.4, 0.4) * sz.Y, Z: c.u(0.2, 0.6) * sz.Z}), nil
		})
		c.add3("RotateUnion3D", nm(sn), func() (sdf.SDF3, error) {
			n := 2 + c.rnd.Intn(5)
			return sdf.RotateUnion3D(s, n, sdf.RotateZ(c.u(0.2, 1)*sdf.Tau/float64(n))), nil
		})
		c.add3("RotateCopy3D", nm(sn), func() (sdf.SDF3, error) { return sdf.RotateCopy3D(s, 1+c.rnd.Intn(8)), nil })
		c.add3("RotateCopy3D", nm("one-sided-block"), func() (sdf.SDF3, error) {
			w, h := c.u(1, 3), c.u(1.5, 4)
			blk, _ := sdf.Box3D(v3.Vec{X: w, Y: h, Z: c.u(0.5, 2)}, 0)
			sx, sy := float64(1-2*(i&1)), float64(1-2*((i>>1)&1))
			ctr := v3.Vec{X: sx * (c.u(2, 6) + w/2), Y: -sy * c.u(0.3, 0.5) * h, Z: c.u(-2, 2)}
			return sdf.RotateCopy3D(sdf.Transform3D(blk, sdf.Translate3d(ctr)), 3+c.rnd.Intn(9)), nil
		})
		c.add3("Union3D", nm(sn+"+"+tn), func() (sdf.SDF3, error) { return sdf.Union3D(s, t), nil })
		c.add3("Difference3D", nm(sn+"-"+tn), func() (sdf.SDF3, error) { return sdf.Difference3D(s, t), nil })
		c.add3("Intersect3D", nm(sn+"&"+tn), func() (sdf.SDF3, error) { return sdf.Intersect3D(s, t), nil })
		c.add3("Orient3D", nm(sn), func() (sdf.SDF3, error) {
			return sdf.Orient3D(s, v3.Vec{Z: 1}, v3.VecSet{{X: 1}, {X: -1, Y: 1}, {Y: -1, Z: -1}, {Z: -1}}), nil
		})
		c.add3("Multi3D", nm(sn), func() (sdf.SDF3, error) {
			return sdf.Multi3D(s, v3.VecSet{{X: c.u(-4, 4), Y: c.u(-4, 4)}, {X: c.u(-4, 4), Z: c.u(-4, 4)}}), nil
		})
		c.add3("LineOf3D", nm(sn), func() (sdf.SDF3, error) {
			return sdf.LineOf3D(s, v3.Vec{X: c.u(-6, 0), Y: c.u(-6, 0)}, v3.Vec{X: c.u(0, 6), Z: c.u(0, 6)}, "x.xx"), nil
		})
		c.add2("Slice2D", nm(sn), func() (sdf.SDF2, error) {
			return sdf.Slice2D(s, s.BoundingBox().Center().Add(v3.Vec{X: c.u(-0.3, 0.3), Y: c.u(-0.3, 0.3), Z: c.u(-0.3, 0.3)}),
				v3.Vec{X: c.u(-1, 1), Y: c.u(-1, 1), Z: c.u(-1, 1)}), nil
		})
		if i < 8 {
			// a block that fills every corner of its bounding box, sliced by a plane whose normal has three non-zero
			// components (one per sign pattern), and rotated copies about a skew axis: every corner of the box matters
			sg := v3.Vec{X: float64(1 - 2*(i&1)), Y: float64(1 - 2*((i>>1)&1)), Z: float64(1 - 2*((i>>2)&1))}
			blk, _ := sdf.Box3D(v3.Vec{X: c.u(1, 3), Y: c.u(1, 3), Z: c.u(1, 3)}, 0)
			c.add2("Slice2D", fmt.Sprintf("block:n=(%g,%g,%g)", sg.X, sg.Y, sg.Z), func() (sdf.SDF2, error) {
				return sdf.Slice2D(blk, v3.Vec{}, v3.Vec{X: sg.X * c.u(0.8, 1.2), Y: sg.Y * c.u(0.8, 2), Z: sg.Z * c.u(0.8, 3)}), nil
			})
			c.add3("RotateUnion3D", fmt.Sprintf("block:skew-axis(%g,%g,%g)", sg.X, sg.Y, sg.Z), func() (sdf.SDF3, error) {
				n := 3 + c.rnd.Intn(4)
				off := sdf.Transform3D(blk, sdf.Translate3d(v3.Vec{X: c.u(-2, 2), Y: c.u(-2, 2), Z: c.u(-2, 2)}))
				return sdf.RotateUnion3D(off, n, sdf.Rotate3d(v3.Vec{X: sg.X, Y: 2 * sg.Y, Z: 2 * sg.Z}, sdf.Tau/float64(n+1))), nil
			})
		}
		c.add2("Slice2D", nm("axis:"+sn), func() (sdf.SDF2, error) {
			n := [3]v3.Vec{{X: 1}, {Y: -1}, {Z: 1}}[i%3]
			return sdf.Slice2D(s, s.BoundingBox().Center(), n), nil
		})
		c.add3("VoxelSDF3", nm(sn), func() (sdf.SDF3, error) { return sdf.NewVoxelSDF3(s, 6+c.rnd.Intn(8), nil), nil })
		// ---- extrusion family, loft, revolve over placed profiles (all quadrants)
		h := c.u(1, 6)
		c.add3("Extrude3D", nm(pn), func() (sdf.SDF3, error) { return sdf.Extrude3D(p, h), nil })
		c.add3("TwistExtrude3D", nm(pn), func() (sdf.SDF3, error) { return sdf.TwistExtrude3D(p, h, c.u(-7, 7)), nil })
		c.add3("ScaleExtrude3D", nm(pn), func() (sdf.SDF3, error) {
			return sdf.ScaleExtrude3D(p, h, v2.Vec{X: c.u(0.2, 3), Y: c.u(0.2, 3)}), nil
		})
		c.add3("ScaleTwistExtrude3D", nm(pn), func() (sdf.SDF3, error) {
			return sdf.ScaleTwistExtrude3D(p, h, c.u(-7, 7), v2.Vec{X: c.u(0.2, 3), Y: c.u(0.2, 3)}), nil
		})
		c.add3("ExtrudeRounded3D", nm(pn), func() (sdf.SDF3, error) { return sdf.ExtrudeRounded3D(p, h, c.u(0.01, 0.5)*h) })
		c.add3("Loft3D", nm(pn+">"+qn), func() (sdf.SDF3, error) { return sdf.Loft3D(p, q, h, c.u(0, 0.45)*h) })
		// revolve: profiles on the positive side and straddling the axis
		rp := sdf.Transform2D(func() sdf.SDF2 { x, _ := c.profile(i); return x }(), sdf.Translate2d(v2.Vec{X: c.u(0, 5), Y: c.u(-3, 3)}))
		c.add3("Revolve3D", nm(""), func() (sdf.SDF3, error) { return sdf.Revolve3D(rp) })
		c.add3("RevolveTheta3D", nm(""), func() (sdf.SDF3, error) { return sdf.RevolveTheta3D(rp, c.u(0.05, 6.25)) })
		c.add3("RevolveTheta3D", nm("quarter-multiple"), func() (sdf.SDF3, error) {
			return sdf.RevolveTheta3D(rp, float64(1+i%4)*math.Pi/2)
		})
		// screw over a simple (trapezoid) thread profile, both hands, tapered
		c.add3("Screw3D", nm("trapezoid"), func() (sdf.SDF3, error) {
			pitch := c.u(0.5, 2)
			r := c.u(2, 5)
			th, err := sdf.Polygon2D([]v2.Vec{{X: -pitch / 2, Y: 0}, {X: pitch / 2, Y: 0}, {X: pitch / 2, Y: r - 0.4}, {X: pitch / 8, Y: r},
				{X: -pitch / 8, Y: r}, {X: -pitch / 2, Y: r - 0.4}})
			if err != nil {
				return nil, err
			}
			starts := []int{1, -1, 2, -3}[i%4]
			taper := 0.0
			if i%2 == 1 {
				taper = c.u(0.01, 0.3)
			}
			return sdf.Screw3D(th, c.u(3, 10), taper, pitch, starts)
		})
	}
	return c.out
}
