package main

// C13: lists far larger than anything that goes through TLC's vector export: saved, parsed with the
// harness's own reader and loaded back; coordinates are small integers (exact in float32).

import (
	"os"
	"path/filepath"

	"github.com/deadsy/sdfx/render"
	"github.com/deadsy/sdfx/sdf"
	v3 "github.com/deadsy/sdfx/vec/v3"
)

type stlLargeObs struct {
	Ev      string `json:"ev"`
	N       int    `json:"n"`
	SaveErr int    `json:"saveerr"`
	Size    int64  `json:"size"`
	Count   int    `json:"count"`  // header count field
	Recs    int    `json:"recs"`   // records present in the file
	RecBad  int    `json:"recbad"` // 1-based index of the first record whose vertices are not the input (0 = none)
	LoadErr int    `json:"loaderr"`
	Loaded  int    `json:"loaded"`  // triangles returned by LoadSTL
	LoadBad int    `json:"loadbad"` // 1-based index of the first loaded triangle that differs from the input (0 = none)
}

func largeTri(i int) *sdf.Triangle3 {
	a, b, c := float64(i%1021), float64((i/1021)%1019), float64(i%7)
	return &sdf.Triangle3{{X: a, Y: b, Z: c}, {X: a + 1, Y: b, Z: c}, {X: a, Y: b + 2, Z: c + 1}}
}

func c13Large(args []string) error {
	dir, err := os.MkdirTemp("", "vh-c13l-")
	if err != nil {
		return err
	}
	defer os.RemoveAll(dir)
	sizes := []int{1<<20 + 1}
	if tier() == "thorough" {
		sizes = []int{1<<20 - 1, 1 << 20, 1<<20 + 1, 1<<21 + 3}
	}
	for _, n := range sizes {
		o := stlLargeObs{Ev: "stllarge", N: n}
		mesh := make([]*sdf.Triangle3, n)
		for i := range mesh {
			mesh[i] = largeTri(i)
		}
		path := filepath.Join(dir, "large.stl")
		if err := render.SaveSTL(path, mesh); err != nil {
			o.SaveErr = 1
		}
		if st, err := os.Stat(path); err == nil {
			o.Size = st.Size()
		}
		if b, err := os.ReadFile(path); err == nil {
			count, recs, _ := parseSTLBinary(b)
			o.Count, o.Recs = int(count), len(recs)
			for i, r := range recs {
				if i >= n {
					break
				}
				t := mesh[i]
				for k := 0; k < 3 && o.RecBad == 0; k++ {
					if float64(r.V[k][0]) != t[k].X || float64(r.V[k][1]) != t[k].Y || float64(r.V[k][2]) != t[k].Z {
						o.RecBad = i + 1
					}
				}
				if o.RecBad != 0 {
					break
				}
			}
		}
		got, err := render.LoadSTL(path)
		if err != nil {
			o.LoadErr = 1
		}
		o.Loaded = len(got)
		for i, t := range got {
			if i >= n {
				break
			}
			if *t != *mesh[i] {
				o.LoadBad = i + 1
				break
			}
		}
		os.Remove(path)
		emit(o)
	}
	_ = v3.Vec{}
	return nil
}

func init() { register("c13-large", c13Large) }
