package main

// C04: the REAL sdf.Polygon2D / sdf.Mesh2D (quadtree) / sdf.Mesh2DSlow (brute force) are evaluated
// at lattice points chosen by TLC and at probes taken from the REAL quadtree (box corners, split-line
// midpoints, +-1 ulp). The harness measures: sign classes, |value| against the reference distance
// (supplied by TLC for lattice points; an exact-orientation brute-force oracle for real-valued
// points) and fast-vs-slow differences, all as integers. spec/trace/PolyTrace.tla judges.

import (
	"encoding/json"
	"fmt"
	"math"
	"math/big"
	"math/rand"
	"sort"
	"strings"

	"github.com/deadsy/sdfx/sdf"
	v2 "github.com/deadsy/sdfx/vec/v2"
)

type c04PolyVec struct {
	T   string   `json:"t"`
	V   [][2]int `json:"v"`
	Win [4]int   `json:"win"`
	Exp [][2]int `json:"exp"` // expected squared distance num/den per window point (row-major, x fastest)
}

// probe measurements at real-valued points (oracle in the harness)
type probeObs struct {
	So   []int   `json:"so"`   // oracle sign: -1 inside, 1 outside, 0 within 1e-6 of the boundary (ambiguous)
	Sf   []int   `json:"sf"`   // Mesh2D sign class w.r.t. +-1e-9
	Ss   []int   `json:"ss"`   // Mesh2DSlow
	Ef   []int64 `json:"ef"`   // | |Mesh2D| - oracle distance | in 1e-12 units
	Es   []int64 `json:"es"`   // | |Mesh2DSlow| - oracle distance |
	Dfs  []int64 `json:"dfs"`  // | |Mesh2D| - |Mesh2DSlow| |
	Lvl  []int   `json:"lvl"`  // p.y vs the vertex levels: 2 within 1e-9 of one but not equal, 1 equal to one, 0 neither
	Kind []int   `json:"kind"` // 1 box corner, 2 split-line midpoint, 3 +-1ulp neighbour, 4 vertex level, 5 random, 6 vertex/edge point
}

type c04PolyObs struct {
	Ev  string   `json:"ev"`
	V   [][2]int `json:"v,omitempty"`
	Win [4]int   `json:"win"`
	Exp [][2]int `json:"exp,omitempty"`
	Idx int      `json:"idx"`
	NV  int      `json:"nv"`
	// lattice points
	Sf    []int    `json:"lsf"`
	Ss    []int    `json:"lss"`
	Sp    []int    `json:"lsp"`
	Ef    []int64  `json:"lef"`
	Es    []int64  `json:"les"`
	Ep    []int64  `json:"lep"`
	Dfs   []int64  `json:"ldfs"`
	Pr    probeObs `json:"pr"`
	Boxes int      `json:"boxes"`
	Far   int      `json:"far"`  // 1: some vertex coordinate exceeds 3e5 in magnitude (a few ulps there are more than the library's 1e-9 clipping tolerance)
	Cerr  int      `json:"cerr"` // 1: Polygon2D / Mesh2D / Mesh2DSlow refused this simple polygon (constructor error)
	Snap  int      `json:"snap"` // vertices within 1e-9 of a quadtree box edge coordinate WITHOUT lying on it (snapping band)
	// report only
	Desc string      `json:"desc,omitempty"`
	P    [][]float64 `json:"p,omitempty"`
	Poly [][]float64 `json:"poly,omitempty"`
}

func e12(x float64) int64 {
	e := math.Abs(x) * 1e12
	if math.IsNaN(e) || e > 1e9 {
		return 1000000000
	}
	return int64(math.Floor(e))
}

type realPoly struct {
	fast, slow, pg sdf.SDF2
	mesh           *sdf.MeshSDF2
	vs             []v2.Vec
}

func buildPoly(vs []v2.Vec) (*realPoly, error) {
	pg, err := sdf.Polygon2D(vs)
	if err != nil {
		return nil, err
	}
	lines := sdf.VertexToLine(vs, true)
	fast, err := sdf.Mesh2D(lines)
	if err != nil {
		return nil, err
	}
	slow, err := sdf.Mesh2DSlow(sdf.VertexToLine(vs, true))
	if err != nil {
		return nil, err
	}
	m, ok := fast.(*sdf.MeshSDF2)
	if !ok {
		return nil, fmt.Errorf("Mesh2D returned %T", fast)
	}
	return &realPoly{fast: fast, slow: slow, pg: pg, mesh: m, vs: vs}, nil
}

// ---------------------------------------------------------------- oracle for real-valued points

func rat(x float64) *big.Rat { return new(big.Rat).SetFloat64(x) }

// insideExact: even-odd ray rule with exact orientation tests (float64 inputs are rationals).
func insideExact(vs []v2.Vec, p v2.Vec) bool {
	n := len(vs)
	cnt := 0
	for i := 0; i < n; i++ {
		a, b := vs[i], vs[(i+1)%n]
		if (a.Y <= p.Y) == (b.Y <= p.Y) {
			continue
		}
		// orientation of (a, b, p): (b.x-a.x)(p.y-a.y) - (p.x-a.x)(b.y-a.y), first in float64 with an error bound
		l := (b.X - a.X) * (p.Y - a.Y)
		r := (p.X - a.X) * (b.Y - a.Y)
		det := l - r
		bound := 1e-14 * (math.Abs(l) + math.Abs(r))
		sgn := 0
		if det > bound {
			sgn = 1
		} else if det < -bound {
			sgn = -1
		} else {
			t1 := new(big.Rat).Mul(new(big.Rat).Sub(rat(b.X), rat(a.X)), new(big.Rat).Sub(rat(p.Y), rat(a.Y)))
			t2 := new(big.Rat).Mul(new(big.Rat).Sub(rat(p.X), rat(a.X)), new(big.Rat).Sub(rat(b.Y), rat(a.Y)))
			sgn = t1.Cmp(t2)
		}
		if b.Y < a.Y {
			sgn = -sgn
		}
		if sgn > 0 {
			cnt++
		}
	}
	return cnt%2 == 1
}

func distOracle(vs []v2.Vec, p v2.Vec) float64 {
	n := len(vs)
	best := math.Inf(1)
	for i := 0; i < n; i++ {
		a, b := vs[i], vs[(i+1)%n]
		vx, vy := b.X-a.X, b.Y-a.Y
		wx, wy := p.X-a.X, p.Y-a.Y
		t := (wx*vx + wy*vy) / (vx*vx + vy*vy)
		if t < 0 {
			t = 0
		} else if t > 1 {
			t = 1
		}
		d := math.Hypot(wx-t*vx, wy-t*vy)
		if d < best {
			best = d
		}
	}
	return best
}

func (o *probeObs) measure(rp *realPoly, p v2.Vec, kind int) {
	f := rp.fast.Evaluate(p)
	s := rp.slow.Evaluate(p)
	d := distOracle(rp.vs, p)
	so := 1
	if d < 1e-6*(1+math.Abs(p.X)+math.Abs(p.Y)) {
		so = 0
	} else if insideExact(rp.vs, p) {
		so = -1
	}
	lvl := 0
	for _, q := range rp.vs {
		if dy := math.Abs(q.Y - p.Y); dy == 0 {
			if lvl == 0 {
				lvl = 1
			}
		} else if dy < 1e-9 {
			lvl = 2
		}
	}
	o.Lvl = append(o.Lvl, lvl)
	o.So = append(o.So, so)
	o.Sf = append(o.Sf, signClass(f))
	o.Ss = append(o.Ss, signClass(s))
	// Errors are reported in units of the clipper's snapping distance, max(1e-9, 1e-14 x largest coordinate)
	// (sdf/box2.go lineIntersect): beyond 1e5 from the origin the unit grows with the magnitude - there
	// 1e-9 is only a few ulps of a coordinate.
	u := 1.0
	for _, q := range rp.vs {
		u = math.Max(u, math.Max(math.Abs(q.X), math.Abs(q.Y))/1e5)
	}
	o.Ef = append(o.Ef, e12((math.Abs(f)-d)/u))
	o.Es = append(o.Es, e12((math.Abs(s)-d)/u))
	o.Dfs = append(o.Dfs, e12((math.Abs(f)-math.Abs(s))/u))
	o.Kind = append(o.Kind, kind)
}

// snapBand counts the vertices that are inside the snapping band of a split line: some box edge
// coordinate c with 0 < |v - c| < 1e-9 (sdf.tolerance), in x or in y.
func snapBand(rp *realPoly) int {
	n := 0
	bs := rp.mesh.Boxes()
	for _, v := range rp.vs {
		hit := false
		for _, b := range bs {
			for _, d := range []float64{v.X - b.Min.X, v.X - b.Max.X, v.Y - b.Min.Y, v.Y - b.Max.Y} {
				if d != 0 && math.Abs(d) < 1e-9 {
					hit = true
				}
			}
		}
		if hit {
			n++
		}
	}
	return n
}

// quadProbes: points derived from the REAL quadtree boxes: corners, edge midpoints (= split lines of the
// parent), each also moved by one ulp in x and in y.
func quadProbes(rp *realPoly, limit int, r *rand.Rand) ([]v2.Vec, []int) {
	bs := rp.mesh.Boxes()
	var pts []v2.Vec
	var kinds []int
	seen := map[v2.Vec]bool{}
	add := func(p v2.Vec, k int) {
		if !seen[p] {
			seen[p] = true
			pts = append(pts, p)
			kinds = append(kinds, k)
		}
	}
	// far outside: 12 and 40 sizes of the bounding box away from it, in random directions
	{
		fb := rp.fast.BoundingBox()
		fc, fs := fb.Center(), math.Max(fb.Size().X, fb.Size().Y)
		for k := 0; k < 6; k++ {
			a := r.Float64() * 2 * math.Pi
			m := []float64{12, 40}[k%2] * fs
			add(v2.Vec{X: fc.X + m*math.Cos(a), Y: fc.Y + m*math.Sin(a)}, 5)
		}
	}
	order := r.Perm(len(bs))
	for _, bi := range order {
		b := bs[bi]
		c := b.Center()
		base := []v2.Vec{b.Min, b.Max, {X: b.Min.X, Y: b.Max.Y}, {X: b.Max.X, Y: b.Min.Y}}
		mids := []v2.Vec{{X: c.X, Y: b.Min.Y}, {X: c.X, Y: b.Max.Y}, {X: b.Min.X, Y: c.Y}, {X: b.Max.X, Y: c.Y}, c}
		for _, p := range base {
			add(p, 1)
		}
		for _, p := range mids {
			add(p, 2)
		}
		for _, p := range append(base[:2:2], mids[4]) {
			add(v2.Vec{X: math.Nextafter(p.X, math.Inf(1)), Y: p.Y}, 3)
			add(v2.Vec{X: math.Nextafter(p.X, math.Inf(-1)), Y: p.Y}, 3)
			add(v2.Vec{X: p.X, Y: math.Nextafter(p.Y, math.Inf(1))}, 3)
			add(v2.Vec{X: p.X, Y: math.Nextafter(p.Y, math.Inf(-1))}, 3)
		}
		// split-line levels combined with vertex coordinates: on a split line AND level with a vertex
		for k := 0; k < 2 && len(rp.vs) > 0; k++ {
			v := rp.vs[r.Intn(len(rp.vs))]
			add(v2.Vec{X: c.X, Y: v.Y}, 2)
			add(v2.Vec{X: v.X, Y: c.Y}, 2)
			add(v2.Vec{X: b.Min.X, Y: v.Y}, 2)
			add(v2.Vec{X: v.X, Y: b.Max.Y}, 2)
		}
		if len(pts) >= limit {
			break
		}
	}
	return pts, kinds
}

func polyObserve(v c04PolyVec) c04PolyObs {
	o := c04PolyObs{Ev: "poly", V: v.V, Win: v.Win, Exp: v.Exp, NV: len(v.V)}
	vs := make([]v2.Vec, len(v.V))
	for i, q := range v.V {
		vs[i] = v2.Vec{X: float64(q[0]), Y: float64(q[1])}
	}
	rp, err := buildPoly(vs)
	if err != nil {
		fatal("polygon %v: %v", v.V, err)
	}
	i := 0
	for y := v.Win[1]; y <= v.Win[3]; y++ {
		for x := v.Win[0]; x <= v.Win[2]; x++ {
			if i >= len(v.Exp) {
				fatal("vector has %d expectations for window %v", len(v.Exp), v.Win)
			}
			p := v2.Vec{X: float64(x), Y: float64(y)}
			want := math.Sqrt(float64(v.Exp[i][0]) / float64(v.Exp[i][1]))
			f, s, g := rp.fast.Evaluate(p), rp.slow.Evaluate(p), rp.pg.Evaluate(p)
			o.Sf = append(o.Sf, signClass(f))
			o.Ss = append(o.Ss, signClass(s))
			o.Sp = append(o.Sp, signClass(g))
			o.Ef = append(o.Ef, e12(math.Abs(f)-want))
			o.Es = append(o.Es, e12(math.Abs(s)-want))
			o.Ep = append(o.Ep, e12(math.Abs(g)-want))
			o.Dfs = append(o.Dfs, e12(math.Abs(f)-math.Abs(s)))
			i++
		}
	}
	h := int64(0)
	for _, q := range v.V {
		h = h*31 + int64(q[0])*7 + int64(q[1])
	}
	r := rand.New(rand.NewSource(h))
	pts, kinds := quadProbes(rp, 120, r)
	for k, p := range pts {
		o.Pr.measure(rp, p, kinds[k])
		o.P = append(o.P, []float64{p.X, p.Y})
	}
	o.Boxes = len(rp.mesh.Boxes())
	o.Snap = snapBand(rp)
	return o
}

func c04Replay(args []string) error {
	n := 0
	readVectors("-", func(raw json.RawMessage) {
		var v c04PolyVec
		if err := json.Unmarshal(raw, &v); err != nil {
			fatal("bad vector: %v", err)
		}
		emit(polyObserve(v))
		n++
	})
	if n == 0 {
		return fmt.Errorf("no vectors")
	}
	return nil
}

// ---------------------------------------------------------------- random polygons (T)

// randomPolygon: families 0 star-shaped, 1 thin, 2 many-vertex star, 3 rectilinear staircase,
// 4 star with vertices snapped to a coarse grid (many collinear / level vertices).
func randomPolygon(r *rand.Rand, fam int) ([]v2.Vec, string) {
	var vs []v2.Vec
	name := ""
	cx, cy := r.Float64()*20-10, r.Float64()*20-10
	scale := math.Pow(10, float64(r.Intn(4)-1))
	if r.Intn(5) == 0 {
		// far from the origin: one ulp of a coordinate is then larger than the library's smaller tolerances
		k := math.Pow(10, 4+2.5*r.Float64())
		cx, cy = cx*k/10, cy*k/10
	}
	star := func(n int, rmin, rmax float64) {
		ang := make([]float64, n)
		for i := range ang {
			ang[i] = r.Float64() * 2 * math.Pi
		}
		sort.Float64s(ang)
		// keep every gap below pi so that the polygon is star-shaped about the centre
		for i := range ang {
			ang[i] = (float64(i) + 0.1 + 0.8*r.Float64()) * 2 * math.Pi / float64(n)
		}
		for _, a := range ang {
			rad := (rmin + r.Float64()*(rmax-rmin)) * scale
			vs = append(vs, v2.Vec{X: cx + rad*math.Cos(a), Y: cy + rad*math.Sin(a)})
		}
	}
	switch fam {
	case 0:
		name = "star"
		star(3+r.Intn(8), 0.3, 1)
	case 1:
		name = "thin"
		l := (1 + r.Float64()*9) * scale
		w := l * math.Pow(10, -1-3*r.Float64())
		a := r.Float64() * math.Pi
		if r.Intn(3) == 0 {
			a = float64(r.Intn(4)) * math.Pi / 2
		}
		ca, sa := math.Cos(a), math.Sin(a)
		loc := []v2.Vec{{X: 0, Y: 0}, {X: l, Y: 0}, {X: l * r.Float64(), Y: w}}
		if r.Intn(2) == 0 {
			loc = []v2.Vec{{X: 0, Y: 0}, {X: l, Y: 0}, {X: l, Y: w}, {X: 0, Y: w}}
		}
		for _, q := range loc {
			vs = append(vs, v2.Vec{X: cx + q.X*ca - q.Y*sa, Y: cy + q.X*sa + q.Y*ca})
		}
	case 2:
		name = "many"
		star(20+r.Intn(60), 0.5, 1)
	case 3:
		name = "stairs"
		n := 2 + r.Intn(6)
		x, y := 0.0, 0.0
		vs = append(vs, v2.Vec{X: cx, Y: cy})
		for i := 0; i < n; i++ {
			x += float64(1+r.Intn(3)) * scale
			vs = append(vs, v2.Vec{X: cx + x, Y: cy + y})
			y += float64(1+r.Intn(3)) * scale
			vs = append(vs, v2.Vec{X: cx + x, Y: cy + y})
		}
		vs = append(vs, v2.Vec{X: cx, Y: cy + y})
	case 5:
		// uniformly spaced vertex levels at a non-dyadic pitch, 2m segments: every level is a boundary of
		// any index that divides the y-range into (a divisor of) 2m equal strips
		name = "ladder"
		m := 2 + r.Intn(39)
		if r.Intn(5) == 0 {
			m = []int{64, 96, 128}[r.Intn(3)]
		}
		pitch := []float64{0.7, 1.27, 1.1, 0.1, 1.0 / 3, 0.3 + r.Float64()}[r.Intn(6)] * scale
		if r.Intn(2) == 0 {
			cy = 0
		}
		if r.Intn(4) == 0 {
			cy = -float64(r.Intn(m+1)) * pitch
		}
		for k := 0; k <= m; k++ {
			vs = append(vs, v2.Vec{X: cx + (1+r.Float64())*scale, Y: cy + float64(k)*pitch})
		}
		for k := m - 1; k >= 1; k-- {
			vs = append(vs, v2.Vec{X: cx - (1+r.Float64())*scale, Y: cy + float64(k)*pitch})
		}
	case 6:
		// finely tessellated outlines: thousands of nearly collinear vertices (a circle, or a plate with a dome)
		name = "fine"
		n := []int{900, 1500, 3000, 7000, 12000}[r.Intn(5)]
		rad := []float64{0.05, 0.3, 1, 1}[r.Intn(4)] * scale
		if r.Intn(2) == 0 {
			for i := 0; i < n; i++ {
				a := 2 * math.Pi * float64(i) / float64(n)
				vs = append(vs, v2.Vec{X: cx + rad*math.Cos(a), Y: cy + rad*math.Sin(a)})
			}
		} else {
			vs = append(vs, v2.Vec{X: cx - rad, Y: cy - rad}, v2.Vec{X: cx + rad, Y: cy - rad})
			for i := 0; i <= n; i++ {
				a := math.Pi * float64(i) / float64(n)
				vs = append(vs, v2.Vec{X: cx + rad*math.Cos(a), Y: cy + 0.6*rad*math.Sin(a)})
			}
		}
	default:
		name = "gridstar"
		star(4+r.Intn(10), 0.4, 1)
		g := scale / 4
		seen := map[v2.Vec]bool{}
		var ws []v2.Vec
		for _, q := range vs {
			q = v2.Vec{X: math.Round(q.X/g) * g, Y: math.Round(q.Y/g) * g}
			if !seen[q] {
				seen[q] = true
				ws = append(ws, q)
			}
		}
		vs = ws
	}
	if r.Intn(2) == 0 { // clockwise
		for i, j := 0, len(vs)-1; i < j; i, j = i+1, j-1 {
			vs[i], vs[j] = vs[j], vs[i]
		}
	}
	return vs, name
}

// simpleExact: no two non-adjacent edges meet, no repeated vertex (float test with a margin; a polygon
// that fails is discarded, never reported).
func simpleEnough(vs []v2.Vec) bool {
	n := len(vs)
	if n < 3 {
		return false
	}
	orient := func(a, b, c v2.Vec) float64 { return (b.X-a.X)*(c.Y-a.Y) - (b.Y-a.Y)*(c.X-a.X) }
	segDist := func(a, b, c, d v2.Vec) float64 {
		return math.Min(math.Min(distOracle([]v2.Vec{a, b}, c), distOracle([]v2.Vec{a, b}, d)),
			math.Min(distOracle([]v2.Vec{c, d}, a), distOracle([]v2.Vec{c, d}, b)))
	}
	var diag float64
	for _, q := range vs {
		diag = math.Max(diag, math.Hypot(q.X-vs[0].X, q.Y-vs[0].Y))
	}
	for i := 0; i < n; i++ {
		a, b := vs[i], vs[(i+1)%n]
		if math.Hypot(a.X-b.X, a.Y-b.Y) < 1e-6*diag {
			return false
		}
		for k := i + 1; k < n; k++ {
			c, d := vs[k], vs[(k+1)%n]
			if k == i+1 || (i == 0 && k == n-1) {
				continue
			}
			if orient(a, b, c)*orient(a, b, d) < 0 && orient(c, d, a)*orient(c, d, b) < 0 {
				return false
			}
			if segDist(a, b, c, d) < 1e-5*diag {
				return false
			}
		}
		// adjacent edges must not fold back
		c := vs[(i+2)%n]
		if math.Abs(orient(a, b, c)) < 1e-9*diag*diag && (a.X-b.X)*(c.X-b.X)+(a.Y-b.Y)*(c.Y-b.Y) > 0 {
			return false
		}
	}
	return true
}

// c04-random [idx]: seeded random polygons; query points snapped to vertex levels / vertices / edges and
// probes from the real quadtree; a second variant moves interior vertices ONTO quadtree split lines.
func c04Random(args []string) error {
	only := -1
	if len(args) > 0 {
		only = atoi(args[0])
	}
	nset := 160
	if tier() == "thorough" {
		nset = 1500
	}
	for idx := 0; idx < nset; idx++ {
		if only >= 0 && idx != only {
			continue
		}
		r := rand.New(rand.NewSource(seed()*15485863 + int64(idx)))
		var vs []v2.Vec
		name := ""
		for try := 0; ; try++ {
			vs, name = randomPolygon(r, (idx+try)%7)
			if name == "fine" || simpleEnough(vs) { // "fine" is simple by construction (the test is quadratic)
				break
			}
		}
		rp, err := buildPoly(vs)
		if err != nil {
			// a simple polygon that a constructor refuses: an observation, not a machinery failure
			o := c04PolyObs{Ev: "polyr", Idx: idx, NV: len(vs), Desc: name + " (" + err.Error() + ")", Cerr: 1, Sf: []int{}, Ss: []int{}, Sp: []int{},
				Ef: []int64{}, Es: []int64{}, Ep: []int64{}, Dfs: []int64{}}
			o.Pr = probeObs{So: []int{}, Sf: []int{}, Ss: []int{}, Ef: []int64{}, Es: []int64{}, Dfs: []int64{}, Kind: []int{}, Lvl: []int{}}
			emit(o)
			continue
		}
		if idx%3 == 2 {
			// move vertices that are not extreme in x / y onto split lines of the real quadtree
			bb := rp.mesh.BoundingBox()
			bs := rp.mesh.Boxes()
			ws := append([]v2.Vec{}, vs...)
			for k := 0; k < 3; k++ {
				i := r.Intn(len(ws))
				b := bs[r.Intn(len(bs))]
				q := ws[i]
				// exactly on the split line, or a hair beside it: within the clipper's 1e-9 snapping distance, just
				// outside it, and up to ~1e-8 of the polygon's size away (an end point that close to a box edge has
				// a crossing parameter within any fixed tolerance of 0 or 1 although it is not the same point)
				size := rp.mesh.BoundingBox().Size().MaxComponent()
				dl := []float64{0, 0, 0, 5e-10, -5e-10, 1.5e-9, -1.5e-9, 4e-9, -4e-9, 1e-9 * size, -1e-9 * size, 1e-8 * size, -1e-8 * size}[r.Intn(13)]
				if r.Intn(2) == 0 {
					q.X = []float64{b.Min.X, b.Max.X, b.Center().X}[r.Intn(3)] + dl
				} else {
					q.Y = []float64{b.Min.Y, b.Max.Y, b.Center().Y}[r.Intn(3)] + dl
				}
				if q.X > bb.Min.X && q.X < bb.Max.X && q.Y > bb.Min.Y && q.Y < bb.Max.Y &&
					vs[i].X > bb.Min.X && vs[i].X < bb.Max.X && vs[i].Y > bb.Min.Y && vs[i].Y < bb.Max.Y {
					old := ws[i]
					ws[i] = q
					if !simpleEnough(ws) {
						ws[i] = old
					}
				}
			}
			if rp2, err := buildPoly(ws); err == nil && rp2.mesh.BoundingBox() == bb {
				vs, rp, name = ws, rp2, name+"+onsplit"
			}
		}
		o := c04PolyObs{Ev: "polyr", Idx: idx, NV: len(vs), Desc: name, Sf: []int{}, Ss: []int{}, Sp: []int{},
			Ef: []int64{}, Es: []int64{}, Ep: []int64{}, Dfs: []int64{}}
		for _, q := range vs {
			o.Poly = append(o.Poly, []float64{q.X, q.Y})
		}
		bb := rp.mesh.BoundingBox()
		sz := bb.Size()
		var pts []v2.Vec
		var kinds []int
		for k := 0; k < 60; k++ {
			va, vb := vs[r.Intn(len(vs))], vs[r.Intn(len(vs))]
			x := bb.Min.X - 0.3*sz.X + r.Float64()*1.6*sz.X
			switch k % 4 {
			case 0: // level with a vertex
				pts, kinds = append(pts, v2.Vec{X: x, Y: va.Y}), append(kinds, 4)
			case 1: // level with one vertex, below/above another
				pts, kinds = append(pts, v2.Vec{X: vb.X, Y: va.Y}), append(kinds, 4)
			case 2:
				pts, kinds = append(pts, v2.Vec{X: x, Y: bb.Min.Y - 0.3*sz.Y + r.Float64()*1.6*sz.Y}), append(kinds, 5)
			default: // a vertex / an edge midpoint (on the boundary: ambiguous sign, distance 0)
				i := r.Intn(len(vs))
				m := vs[i].Add(vs[(i+1)%len(vs)]).MulScalar(0.5)
				pts, kinds = append(pts, va, m), append(kinds, 6, 6)
			}
		}
		if strings.HasPrefix(name, "ladder") {
			// every vertex level: inside, far left, far right
			seen := map[float64]bool{}
			for _, q := range vs {
				if !seen[q.Y] {
					seen[q.Y] = true
					mid := 0.5 * (bb.Min.X + bb.Max.X)
					pts = append(pts, v2.Vec{X: mid, Y: q.Y}, v2.Vec{X: bb.Min.X - 0.3*sz.X, Y: q.Y}, v2.Vec{X: bb.Max.X + 0.3*sz.X, Y: q.Y})
					kinds = append(kinds, 4, 4, 4)
				}
			}
		}
		qp, qk := quadProbes(rp, 150, r)
		pts, kinds = append(pts, qp...), append(kinds, qk...)
		for k, p := range pts {
			o.Pr.measure(rp, p, kinds[k])
			o.P = append(o.P, []float64{p.X, p.Y})
		}
		o.Boxes = len(rp.mesh.Boxes())
		o.Snap = snapBand(rp)
		for _, q := range vs {
			if math.Abs(q.X) > 3e5 || math.Abs(q.Y) > 3e5 {
				o.Far = 1
			}
		}
		emit(o)
	}
	return nil
}

func init() {
	register("c04-replay", c04Replay)
	register("c04-random", c04Random)
}
