package main

// C13 - STL files are well-formed and round-trip exactly.
//
//   c13-replay   vectors (stdin NDJSON) -> observations (stdout NDJSON)
//     {"kind":"dy","s":S,"tris":[[9 ints]...]}   coordinates k * 2^S chosen by TLC (float32 image computed by TLC)
//     {"kind":"rnd","seed":..,"i":..}           seeded real-valued list (float32 image supplied as data)
//   Each vector is written by render.SaveSTL, by render.ToSTL through a scripted Render3, and by the
//   streaming writer itself (render.VerifWriteSTL); the bytes are parsed by the little-endian reader below,
//   loaded back by render.LoadSTL; "dy" vectors are also written as hand-made ASCII STL and loaded.
//   The harness only projects (tokens as 16-bit halves, measured normal errors as scaled integers).

import (
	"encoding/binary"
	"encoding/json"
	"fmt"
	"math"
	"math/big"
	"math/rand"
	"os"
	"path/filepath"
	"strconv"
	"strings"
	"sync"
	"time"

	"github.com/deadsy/sdfx/render"
	"github.com/deadsy/sdfx/sdf"
	v3 "github.com/deadsy/sdfx/vec/v3"
)

type c13Vec struct {
	Kind string   `json:"kind"`
	S    int      `json:"s"`
	Tris [][9]int `json:"tris"`
	Seed int64    `json:"seed"`
	I    int      `json:"i"`
}

type c13Obs struct {
	Ev       string    `json:"ev"`   // "file"
	Kind     string    `json:"kind"` // save | tostl | stream | ascii
	ID       int       `json:"id"`
	Vec      c13Vec    `json:"vec"`
	Dy       int       `json:"dy"`
	S        int       `json:"s"`
	Tris     [][9]int  `json:"tris"`
	N        int       `json:"n"`
	Img      [][18]int `json:"img"`
	Werr     int       `json:"werr"`
	Short    int       `json:"short"`
	Size     int       `json:"size"`
	Count    int       `json:"count"`
	Rem      int       `json:"rem"`
	HdrZero  int       `json:"hdrzero"`
	BHdrZero int       `json:"bhdrzero"`
	Recs     [][25]int `json:"recs"`
	Nm       [][6]int  `json:"nm"`
	Bn       [][6]int  `json:"bn"`
	Lerr     int       `json:"lerr"`
	Ln       int       `json:"ln"`
	Lv       [][18]int `json:"lv"`
	Linexact int       `json:"linexact"`
	Batches  []int     `json:"batches"`
}

// ---------------------------------------------------------------- float32 rounding, three ways

// f32Manual rounds a finite float64 to the nearest float32 (ties to even) by bit manipulation.
func f32Manual(x float64) uint32 {
	b := math.Float64bits(x)
	sign := uint32(b>>63) << 31
	exp := int((b >> 52) & 0x7ff)
	man := b & (1<<52 - 1)
	if exp == 0x7ff {
		if man != 0 {
			return sign | 0x7fc00000
		}
		return sign | 0x7f800000
	}
	if exp == 0 {
		if man == 0 {
			return sign
		}
		// float64 subnormal: far below the float32 subnormal range -> rounds to zero
		return sign
	}
	sig := man | 1<<52 // 53-bit significand, value = sig * 2^(exp-1075)
	e := exp - 1023    // unbiased exponent of the leading bit
	// target: float32 with exponent e (normal if e >= -126), 24-bit significand; subnormal: ulp 2^-149
	var shift uint
	if e >= -126 {
		shift = 29 // 53 -> 24 bits
	} else {
		d := -126 - e
		if d > 30 {
			return sign // below half of the smallest subnormal (or rounds to zero anyway)
		}
		shift = uint(29 + d)
	}
	q := sig >> shift
	rem := sig & (1<<shift - 1)
	half := uint64(1) << (shift - 1)
	if rem > half || (rem == half && q&1 == 1) {
		q++
	}
	if e >= -126 {
		// q in [2^23, 2^24]; carry out of the significand bumps the exponent
		E := uint64(e + 127)
		r := (E << 23) + (q - (1 << 23))
		if r >= 0x7f800000 {
			return sign | 0x7f800000
		}
		return sign | uint32(r)
	}
	// subnormal (q < 2^23) or exactly the smallest normal (q == 2^23): both are encoded by q itself
	return sign | uint32(q)
}

func f32Image(x float64) uint32 {
	m := f32Manual(x)
	bf, _ := new(big.Float).SetFloat64(x).Float32()
	g := math.Float32bits(bf)
	if math.Signbit(x) && x == 0 {
		g = 0x80000000
	}
	c := math.Float32bits(float32(x))
	if m != g || m != c {
		fatal("c13: float32 roundings disagree for %v (%x): manual %08x big %08x conv %08x", x, math.Float64bits(x), m, g, c)
	}
	return m
}

func halves(u uint32) (int, int) { return int(u >> 16), int(u & 0xffff) }

// ---------------------------------------------------------------- vectors -> triangles

func c13Triangles(v c13Vec) []*sdf.Triangle3 {
	var ts []*sdf.Triangle3
	if v.Kind == "dy" {
		for _, t := range v.Tris {
			var f [9]float64
			for i := range f {
				f[i] = math.Ldexp(float64(t[i]), v.S)
			}
			ts = append(ts, &sdf.Triangle3{{X: f[0], Y: f[1], Z: f[2]}, {X: f[3], Y: f[4], Z: f[5]}, {X: f[6], Y: f[7], Z: f[8]}})
		}
		return ts
	}
	r := rand.New(rand.NewSource(v.Seed*100003 + int64(v.I)*7 + 1))
	n := r.Intn(6)
	if r.Intn(12) == 0 {
		n = 250 + r.Intn(500)
	}
	mag := r.Intn(8)
	far := 1e7 * float64(1+r.Intn(3)) * []float64{1, -1}[r.Intn(2)]
	edge := []float64{1, 30, 0.05}[r.Intn(3)]
	coord := func() float64 {
		switch mag {
		case 7: // a small triangle far from the origin, with coordinates that are not float32 values
			return far + edge*r.NormFloat64()
		case 0: // unit scale
			return r.NormFloat64() * 10
		case 1: // tiny, including the float32 subnormal range
			return r.NormFloat64() * math.Ldexp(1, -126-r.Intn(24))
		case 2: // huge, below MaxFloat32
			x := r.NormFloat64() * 1e37
			if math.Abs(x) > 3e38 {
				x = 3e38
			}
			return x
		case 3: // any exponent
			return (r.Float64()*2 - 1) * math.Ldexp(1, r.Intn(277)-149)
		case 4: // exactly half-way between two float32 values, and one float64 ulp either side
			f := math.Float32frombits(uint32(r.Intn(0x7f7ffffe))) // every finite exponent, the top binade included
			g := math.Float32frombits(math.Float32bits(f) + 1)
			h := (float64(f) + float64(g)) / 2
			switch r.Intn(3) {
			case 0:
				h = math.Nextafter(h, 0)
			case 1:
				h = math.Nextafter(h, math.Inf(1))
			}
			if r.Intn(2) == 0 {
				h = -h
			}
			return h
		case 5: // signed zeros and small integers
			return []float64{0, math.Copysign(0, -1), 1, -1, 0.1, -0.3, 16777217, 1e-46, -1e-46,
				math.MaxFloat32, -math.MaxFloat32, 3e38, -2.5e38, math.Ldexp(1, 127), math.Nextafter(math.Ldexp(1, 127), math.Inf(1))}[r.Intn(15)]
		default: // CAD-like: millimetres with a few decimals
			return math.Round(r.NormFloat64()*1e5) / 1e3
		}
	}
	for i := 0; i < n; i++ {
		var t sdf.Triangle3
		for k := 0; k < 3; k++ {
			t[k] = v3.Vec{X: coord(), Y: coord(), Z: coord()}
		}
		ts = append(ts, &t)
	}
	return ts
}

func triCoords(t *sdf.Triangle3) [9]float64 {
	return [9]float64{t[0].X, t[0].Y, t[0].Z, t[1].X, t[1].Y, t[1].Z, t[2].X, t[2].Y, t[2].Z}
}

// ---------------------------------------------------------------- own little-endian reader

func c13Parse(b []byte, o *c13Obs) {
	o.Size = len(b)
	o.Recs = [][25]int{}
	if len(b) < 84 {
		o.Short = 1
		return
	}
	o.HdrZero = 1
	for _, x := range b[:80] {
		if x != 0 {
			o.HdrZero = 0
		}
	}
	c := uint32(b[80]) | uint32(b[81])<<8 | uint32(b[82])<<16 | uint32(b[83])<<24
	if c > 1<<30 {
		c = 1 << 30
	}
	o.Count = int(c)
	body := b[84:]
	o.Rem = len(body) % 50
	for i := 0; i+50 <= len(body); i += 50 {
		var rec [25]int
		for k := 0; k < 12; k++ {
			p := body[i+4*k:]
			u := uint32(p[0]) | uint32(p[1])<<8 | uint32(p[2])<<16 | uint32(p[3])<<24
			rec[2*k], rec[2*k+1] = halves(u)
		}
		rec[24] = int(body[i+48]) | int(body[i+49])<<8
		o.Recs = append(o.Recs, rec)
	}
}

// ---------------------------------------------------------------- measured normal

func clampI(x float64, hi int) int {
	if math.IsNaN(x) || x > float64(hi) {
		return hi
	}
	if x < -float64(hi) {
		return -hi
	}
	return int(math.Round(x))
}

func ratOf(x float64) *big.Rat { r := new(big.Rat); r.SetFloat64(x); return r }

// c13Normal measures the normal stored in a record against the exact cross product of the INPUT triangle:
// degen (0 clean, 1 nearly degenerate: not judged, 2 exactly degenerate), | |n|^2 - 1 | * 1e9, (1 - cos) * 1e9,
// and the normal scaled by 1024 and rounded.
func c13Normal(rec [25]int, in [9]float64) [6]int {
	var n [3]float64
	for k := 0; k < 3; k++ {
		n[k] = float64(math.Float32frombits(uint32(rec[2*k])<<16 | uint32(rec[2*k+1])))
	}
	sub := func(a, b float64) *big.Rat { return new(big.Rat).Sub(ratOf(a), ratOf(b)) }
	u := [3]*big.Rat{sub(in[3], in[0]), sub(in[4], in[1]), sub(in[5], in[2])}
	w := [3]*big.Rat{sub(in[6], in[0]), sub(in[7], in[1]), sub(in[8], in[2])}
	cr := func(a, b, c, d *big.Rat) *big.Rat {
		return new(big.Rat).Sub(new(big.Rat).Mul(a, b), new(big.Rat).Mul(c, d))
	}
	c := [3]*big.Rat{cr(u[1], w[2], u[2], w[1]), cr(u[2], w[0], u[0], w[2]), cr(u[0], w[1], u[1], w[0])}
	var out [6]int
	for k := 0; k < 3; k++ {
		out[3+k] = clampI(n[k]*1024, 1<<20)
	}
	if c[0].Sign() == 0 && c[1].Sign() == 0 && c[2].Sign() == 0 {
		out[0] = 2
		return out
	}
	// to big.Float with a common scaling so that nothing under/overflows
	bf := func(r *big.Rat) *big.Float { return new(big.Float).SetPrec(300).SetRat(r) }
	cf := [3]*big.Float{bf(c[0]), bf(c[1]), bf(c[2])}
	c2 := new(big.Float).SetPrec(300)
	dot := new(big.Float).SetPrec(300)
	for k := 0; k < 3; k++ {
		c2.Add(c2, new(big.Float).SetPrec(300).Mul(cf[k], cf[k]))
		dot.Add(dot, new(big.Float).SetPrec(300).Mul(cf[k], new(big.Float).SetPrec(300).SetFloat64(nz(n[k]))))
	}
	cl := new(big.Float).SetPrec(300).Sqrt(c2)
	// nearly degenerate (not judged): sin(angle between the edges) < 1e-6, or an edge shorter than 1e-6 of the
	// largest coordinate times 1e-9 (the float64 subtraction of the code may then lose the direction)
	m := 0.0
	for _, x := range in {
		m = math.Max(m, math.Abs(x))
	}
	norm := func(a [3]*big.Rat) *big.Float {
		s := new(big.Float).SetPrec(300)
		for k := 0; k < 3; k++ {
			f := bf(a[k])
			s.Add(s, new(big.Float).SetPrec(300).Mul(f, f))
		}
		return s.Sqrt(s)
	}
	ul, wl := norm(u), norm(w)
	eps := big.NewFloat(1e-6)
	lim := new(big.Float).SetPrec(300).Mul(ul, wl)
	lim.Mul(lim, eps)
	// (edges: the float64 subtraction of two coordinates of size m is good to 1e-16 m, so an edge down to 1e-9 m
	// still has a direction good to 1e-7 rad - far inside the 1e-6 tolerance on 1 - cos)
	ml := new(big.Float).SetPrec(300).Mul(new(big.Float).SetFloat64(m), big.NewFloat(1e-9))
	if cl.Cmp(lim) < 0 || ul.Cmp(ml) < 0 || wl.Cmp(ml) < 0 {
		out[0] = 1
	}
	n2 := n[0]*n[0] + n[1]*n[1] + n[2]*n[2]
	out[1] = clampI(math.Abs(n2-1)*1e9, 2000000000)
	nl := math.Sqrt(n2)
	if nl == 0 || math.IsNaN(nl) {
		out[2] = 2000000000
		return out
	}
	q := new(big.Float).SetPrec(300).Quo(dot, cl)
	cosv, _ := q.Float64()
	out[2] = clampI((1-cosv/nl)*1e9, 2000000000)
	if out[2] < 0 {
		out[2] = 0
	}
	return out
}

func nz(x float64) float64 {
	if math.IsNaN(x) || math.IsInf(x, 0) {
		return 0
	}
	return x
}

// ---------------------------------------------------------------- scripted renderer

type scriptRender3 struct {
	ts      []*sdf.Triangle3
	batches []int
}

func (r *scriptRender3) Render(s sdf.SDF3, out sdf.Triangle3Writer) {
	// the renderer owns the slice it passes to Write and fills it again for the next call (what a writer may keep
	// of a Write is the triangles, not the caller's slice)
	junk := &sdf.Triangle3{{X: 12345, Y: 1, Z: 2}, {X: 3, Y: 12345, Z: 4}, {X: 5, Y: 6, Z: 12345}}
	var scratch []*sdf.Triangle3
	i := 0
	for _, b := range r.batches {
		if cap(scratch) < b {
			scratch = make([]*sdf.Triangle3, b)
		}
		scratch = scratch[:b]
		copy(scratch, r.ts[i:i+b])
		out.Write(scratch)
		for k := range scratch {
			scratch[k] = junk
		}
		i += b
	}
	out.Close()
}
func (r *scriptRender3) Info(s sdf.SDF3) string { return "scripted" }

func splitBatches(n int, r *rand.Rand) []int {
	bs := []int{}
	if n >= 300 && r.Intn(2) == 0 {
		// one write at or above the size of the library's internal triangle buffer (256)
		b := 256 + r.Intn(n-256+1)
		bs = append(bs, b)
		n -= b
	}
	for n > 0 {
		b := 1 + r.Intn(n)
		if r.Intn(3) == 0 {
			b = 1 + r.Intn(3)
		}
		if b > n {
			b = n
		}
		if r.Intn(5) == 0 {
			bs = append(bs, 0) // an empty write
		}
		bs = append(bs, b)
		n -= b
	}
	return bs
}

// ---------------------------------------------------------------- ASCII writer (hand-made, well-formed)

func c13ASCII(ts []*sdf.Triangle3, style int) []byte {
	eol := "\n"
	if style%2 == 1 {
		eol = "\r\n"
	}
	fm := func(x float64) string {
		switch (style / 2) % 3 {
		case 0:
			return strconv.FormatFloat(x, 'g', -1, 64)
		case 1:
			return strings.ToUpper(strconv.FormatFloat(x, 'e', 17, 64))
		default:
			return strconv.FormatFloat(x, 'e', -1, 64)
		}
	}
	var b strings.Builder
	b.WriteString("solid verif" + eol)
	for _, t := range ts {
		b.WriteString(" facet normal 0 0 0" + eol + "  outer loop" + eol)
		for k := 0; k < 3; k++ {
			// any white space separates the keyword from the numbers and the numbers from each other
			sep := []string{" ", "\t", " \t "}[(style/6)%3]
			b.WriteString("   vertex" + sep + fm(t[k].X) + " " + fm(t[k].Y) + "  " + fm(t[k].Z) + eol)
		}
		b.WriteString("  endloop" + eol + " endfacet" + eol)
	}
	b.WriteString("endsolid verif" + eol)
	return []byte(b.String())
}

// ---------------------------------------------------------------- one vector

func c13Load(path string, o *c13Obs) {
	o.Lv = [][18]int{}
	var mesh []*sdf.Triangle3
	var err error
	func() {
		defer func() {
			if p := recover(); p != nil {
				err = fmt.Errorf("panic: %v", p)
			}
		}()
		mesh, err = render.LoadSTL(path)
		if err == nil {
			// the caller owns what it was given: scribble over it and load the unchanged file again
			for _, t := range mesh {
				*t = sdf.Triangle3{{X: 777, Y: 777, Z: 777}, {X: -777, Y: 777, Z: 777}, {X: 777, Y: -777, Z: 777}}
			}
			mesh, err = render.LoadSTL(path)
		}
	}()
	if err != nil {
		o.Lerr = 1
		return
	}
	o.Ln = len(mesh)
	for _, t := range mesh {
		var row [18]int
		for k, x := range triCoords(t) {
			f := float32(x)
			if float64(f) != x && !(math.IsNaN(x) && f != f) {
				o.Linexact++
			}
			row[2*k], row[2*k+1] = halves(math.Float32bits(f))
		}
		o.Lv = append(o.Lv, row)
	}
}

func c13One(id int, v c13Vec, dir string) []c13Obs {
	ts := c13Triangles(v)
	if v.Tris == nil {
		v.Tris = [][9]int{}
	}
	base := c13Obs{Ev: "file", ID: id, Vec: v, S: v.S, Tris: v.Tris, N: len(ts), Img: [][18]int{}, Nm: [][6]int{}, Bn: [][6]int{},
		Recs: [][25]int{}, Lv: [][18]int{}, Batches: []int{}}
	if v.Kind == "dy" {
		base.Dy = 1
	}
	if base.Tris == nil {
		base.Tris = [][9]int{}
	}
	for _, t := range ts {
		var row [18]int
		for k, x := range triCoords(t) {
			row[2*k], row[2*k+1] = halves(f32Image(x))
		}
		base.Img = append(base.Img, row)
	}
	// the batch split is a function of the vector, not of its position in the input (a re-run of one vector must
	// write through the same batches)
	hv := int64(len(ts))*7919 + v.Seed*31 + int64(v.I) + int64(v.S)*13
	for _, t := range ts {
		for _, x := range triCoords(t) {
			hv = (hv*31 + int64(math.Float64bits(x)>>40)) % 2147483647
		}
	}
	r := rand.New(rand.NewSource(seed()*31 + hv))
	finish := func(o *c13Obs, path string) {
		b, err := os.ReadFile(path)
		if err != nil {
			o.Werr = 1
			return
		}
		c13Parse(b, o)
		for i, rec := range o.Recs {
			if i < len(ts) {
				o.Nm = append(o.Nm, c13Normal(rec, triCoords(ts[i])))
			}
		}
		c13Load(path, o)
	}
	normals := func(o *c13Obs) [][6]int {
		out := [][6]int{}
		for _, rec := range o.Recs {
			var n [6]int
			copy(n[:], rec[:6])
			out = append(out, n)
		}
		return out
	}
	var res []c13Obs
	var stamp time.Time
	// batch writer
	save := base
	save.Kind = "save"
	p1 := filepath.Join(dir, "save.stl")
	os.Remove(p1)
	if len(ts) >= 2 {
		// an earlier, different file of the same size at the same path, loaded once; the file under test then
		// replaces it and gets the same time stamp (a copy tool that preserves times, or two writes within one tick)
		rev := make([]*sdf.Triangle3, len(ts))
		for i := range ts {
			rev[len(ts)-1-i] = ts[i]
		}
		if render.SaveSTL(p1, rev) == nil {
			if fi, err := os.Stat(p1); err == nil {
				func() {
					defer func() { recover() }()
					render.LoadSTL(p1)
				}()
				stamp = fi.ModTime()
			}
		}
	}
	if err := render.SaveSTL(p1, ts); err != nil {
		save.Werr = 1
	}
	if !stamp.IsZero() {
		os.Chtimes(p1, stamp, stamp)
	}
	finish(&save, p1)
	save.Bn = normals(&save)
	save.BHdrZero = save.HdrZero
	res = append(res, save)
	// ToSTL through a scripted renderer (Triangle3Buffer + writeSTL)
	to := base
	to.Kind = "tostl"
	to.Batches = splitBatches(len(ts), r)
	p2 := filepath.Join(dir, "tostl.stl")
	// a stale, longer file must be truncated by the writer
	os.WriteFile(p2, make([]byte, 84+50*(len(ts)+3)+7), 0644)
	render.ToSTL(nil, p2, &scriptRender3{ts: ts, batches: to.Batches})
	finish(&to, p2)
	to.Bn, to.BHdrZero = save.Bn, save.HdrZero
	res = append(res, to)
	// the streaming writer itself
	st := base
	st.Kind = "stream"
	st.Batches = splitBatches(len(ts), r)
	p3 := filepath.Join(dir, "stream.stl")
	os.Remove(p3)
	var wg sync.WaitGroup
	ch, err := render.VerifWriteSTL(&wg, p3)
	if err != nil {
		st.Werr = 1
	} else {
		i := 0
		for _, b := range st.Batches {
			ch <- ts[i : i+b]
			i += b
		}
		close(ch)
		wg.Wait()
	}
	finish(&st, p3)
	st.Bn, st.BHdrZero = save.Bn, save.HdrZero
	res = append(res, st)
	// hand-made ASCII (exactly representable values only)
	if v.Kind == "dy" {
		as := base
		as.Kind = "ascii"
		p4 := filepath.Join(dir, "ascii.stl")
		// the layout style is a function of the vector (a re-run of one vector must write the same file)
		style := 0
		for _, t := range ts {
			for _, x := range triCoords(t) {
				style = (style*31 + int(math.Float64bits(x)>>40)) % 1000003
			}
		}
		b := c13ASCII(ts, style%18)
		os.WriteFile(p4, b, 0644)
		as.Size = len(b)
		c13Load(p4, &as)
		res = append(res, as)
	}
	return res
}

func c13Replay(args []string) error {
	dir, err := os.MkdirTemp("", "vh-c13-")
	if err != nil {
		return err
	}
	defer os.RemoveAll(dir)
	n := 0
	readVectors("-", func(raw json.RawMessage) {
		var v c13Vec
		if err := json.Unmarshal(raw, &v); err != nil {
			fatal("bad vector: %v", err)
		}
		for _, o := range c13One(n, v, dir) {
			emit(o)
		}
		n++
	})
	if n == 0 {
		return fmt.Errorf("no vectors")
	}
	return nil
}

var _ = binary.LittleEndian

func init() { register("c13-replay", c13Replay) }
