package main

// C10: every shape the library constructs may be evaluated concurrently.
// Observers: (a) a reflection-based deep digest of the shape's reachable state before/after
// Evaluate (is the shape immutable under Evaluate?), (b) the Go race detector and the runtime's own
// fault detection while Evaluate is hammered from many goroutines and while the uniform renderer
// (one worker per CPU) renders the shape, (c) concurrent values against sequential values.

import (
	"bytes"
	"encoding/json"
	"fmt"
	"hash/fnv"
	"math"
	"math/rand"
	"os"
	"os/exec"
	"reflect"
	"regexp"
	"runtime"
	"sort"
	"strings"
	"sync"
	"unsafe"

	"github.com/deadsy/sdfx/obj"
	"github.com/deadsy/sdfx/render"
	"github.com/deadsy/sdfx/sdf"
	v2 "github.com/deadsy/sdfx/vec/v2"
	v3 "github.com/deadsy/sdfx/vec/v3"
	"github.com/deadsy/sdfx/vec/v3i"
)

type shapeCtor struct {
	name string
	mk2  func() (sdf.SDF2, error)
	mk3  func() (sdf.SDF3, error)
}

func must2(s sdf.SDF2, err error) sdf.SDF2 {
	if err != nil {
		panic(err)
	}
	return s
}
func must3(s sdf.SDF3, err error) sdf.SDF3 {
	if err != nil {
		panic(err)
	}
	return s
}

func repoFile(name string) string {
	for _, d := range []string{os.Getenv("VERIF_REPO"), "/repo"} {
		if d == "" {
			continue
		}
		p := d + "/files/" + name
		if _, err := os.Stat(p); err == nil {
			return p
		}
	}
	return "/repo/files/" + name
}

func shapeList() []shapeCtor {
	box2 := func() sdf.SDF2 { return sdf.Box2D(v2.Vec{X: 2, Y: 1}, 0.1) }
	circle := func() sdf.SDF2 { return must2(sdf.Circle2D(1)) }
	box3 := func() sdf.SDF3 { return must3(sdf.Box3D(v3.Vec{X: 2, Y: 1, Z: 1.5}, 0.1)) }
	sphere := func() sdf.SDF3 { return must3(sdf.Sphere3D(1)) }
	poly := []v2.Vec{{X: 0, Y: 0}, {X: 2, Y: 0}, {X: 2, Y: 1}, {X: 1, Y: 0.4}, {X: 0, Y: 1}}
	L := []shapeCtor{
		{name: "Box2D", mk2: func() (sdf.SDF2, error) { return box2(), nil }},
		{name: "Circle2D", mk2: func() (sdf.SDF2, error) { return sdf.Circle2D(1) }},
		{name: "Line2D", mk2: func() (sdf.SDF2, error) { return sdf.Line2D(2, 0.2), nil }},
		{name: "Polygon2D", mk2: func() (sdf.SDF2, error) { return sdf.Polygon2D(poly) }},
		{name: "Cache2D(Polygon2D)", mk2: func() (sdf.SDF2, error) { return sdf.Cache2D(must2(sdf.Polygon2D(poly))), nil }},
		{name: "Cache2D(Circle2D)", mk2: func() (sdf.SDF2, error) { return sdf.Cache2D(circle()), nil }},
		{name: "Union2D", mk2: func() (sdf.SDF2, error) {
			return sdf.Union2D(box2(), sdf.Transform2D(circle(), sdf.Translate2d(v2.Vec{X: 1}))), nil
		}},
		{name: "Union2D+PolyMin", mk2: func() (sdf.SDF2, error) {
			u := sdf.Union2D(box2(), sdf.Transform2D(circle(), sdf.Translate2d(v2.Vec{X: 1})))
			u.(*sdf.UnionSDF2).SetMin(sdf.PolyMin(0.2))
			return u, nil
		}},
		{name: "Union2D+RoundMin", mk2: func() (sdf.SDF2, error) {
			u := sdf.Union2D(box2(), sdf.Transform2D(circle(), sdf.Translate2d(v2.Vec{X: 1})))
			u.(*sdf.UnionSDF2).SetMin(sdf.RoundMin(0.4))
			return u, nil
		}},
		{name: "Union2D+ChamferMin", mk2: func() (sdf.SDF2, error) {
			u := sdf.Union2D(box2(), sdf.Transform2D(circle(), sdf.Translate2d(v2.Vec{X: 1})))
			u.(*sdf.UnionSDF2).SetMin(sdf.ChamferMin(0.4))
			return u, nil
		}},
		{name: "Union2D+ExpMin", mk2: func() (sdf.SDF2, error) {
			u := sdf.Union2D(box2(), sdf.Transform2D(circle(), sdf.Translate2d(v2.Vec{X: 1})))
			u.(*sdf.UnionSDF2).SetMin(sdf.ExpMin(8))
			return u, nil
		}},
		{name: "Union2D+PowMin", mk2: func() (sdf.SDF2, error) {
			u := sdf.Union2D(box2(), sdf.Transform2D(circle(), sdf.Translate2d(v2.Vec{X: 1})))
			u.(*sdf.UnionSDF2).SetMin(sdf.PowMin(8))
			return u, nil
		}},
		{name: "Cache2D(Cache2D) both in use", mk2: func() (sdf.SDF2, error) {
			// a cached shape cached again (a library function that caches its argument, given an already cached one);
			// both objects stay in use
			c1 := sdf.Cache2D(must2(sdf.Polygon2D(poly)))
			c2 := sdf.Cache2D(c1)
			return sdf.Union2D(c2, sdf.Transform2D(c1, sdf.Translate2d(v2.Vec{X: 0.37, Y: 0.21}))), nil
		}},
		{name: "Difference2D", mk2: func() (sdf.SDF2, error) { return sdf.Difference2D(box2(), circle()), nil }},
		{name: "Intersect2D", mk2: func() (sdf.SDF2, error) { return sdf.Intersect2D(box2(), circle()), nil }},
		{name: "Offset2D", mk2: func() (sdf.SDF2, error) { return sdf.Offset2D(box2(), 0.2), nil }},
		{name: "Array2D", mk2: func() (sdf.SDF2, error) {
			return sdf.Array2D(circle(), v2i2(3, 2), v2.Vec{X: 2.5, Y: 2.5}), nil
		}},
		{name: "RotateCopy2D", mk2: func() (sdf.SDF2, error) {
			return sdf.RotateCopy2D(sdf.Transform2D(box2(), sdf.Translate2d(v2.Vec{X: 3})), 5), nil
		}},
		{name: "RotateUnion2D", mk2: func() (sdf.SDF2, error) {
			return sdf.RotateUnion2D(sdf.Transform2D(box2(), sdf.Translate2d(v2.Vec{X: 3})), 4, sdf.Rotate2d(math.Pi/2)), nil
		}},
		{name: "Elongate2D", mk2: func() (sdf.SDF2, error) { return sdf.Elongate2D(circle(), v2.Vec{X: 1, Y: 0.5}), nil }},
		{name: "Cut2D", mk2: func() (sdf.SDF2, error) { return sdf.Cut2D(circle(), v2.Vec{}, v2.Vec{X: 1, Y: 1}), nil }},
		{name: "Slice2D", mk2: func() (sdf.SDF2, error) {
			return sdf.Slice2D(sphere(), v3.Vec{Z: 0.3}, v3.Vec{X: 0.1, Y: 0.2, Z: 1}), nil
		}},
		{name: "CubicSpline2D", mk2: func() (sdf.SDF2, error) {
			return sdf.CubicSpline2D([]v2.Vec{{X: 0, Y: 0}, {X: 1, Y: 1}, {X: 2, Y: 0}, {X: 1, Y: -1}})
		}},
		{name: "Text2D", mk2: func() (sdf.SDF2, error) {
			f, err := sdf.LoadFont(repoFile("cmr10.ttf"))
			if err != nil {
				return nil, err
			}
			return sdf.Text2D(f, sdf.NewText("Ab"), 10)
		}},
		{name: "Text2D(long)", mk2: func() (sdf.SDF2, error) {
			// more glyphs than any small fixed-size scratch area would hold
			f, err := sdf.LoadFont(repoFile("cmr10.ttf"))
			if err != nil {
				return nil, err
			}
			return sdf.Text2D(f, sdf.NewText("The quick brown fox jumps over it"), 10)
		}},
		{name: "Union2D(40 operands)", mk2: func() (sdf.SDF2, error) {
			var ops []sdf.SDF2
			for i := 0; i < 40; i++ {
				c, _ := sdf.Circle2D(0.3 + 0.01*float64(i))
				ops = append(ops, sdf.Transform2D(c, sdf.Translate2d(v2.Vec{X: float64(i%8) * 1.5, Y: float64(i/8) * 1.5})))
			}
			return sdf.Union2D(ops...), nil
		}},
		{name: "InvoluteGear", mk2: func() (sdf.SDF2, error) {
			return obj.InvoluteGear(&obj.InvoluteGearParms{NumberTeeth: 12, Module: 1, PressureAngle: sdf.DtoR(20), RingWidth: 2, Facets: 4})
		}},
		{name: "Washer2D", mk2: func() (sdf.SDF2, error) {
			return obj.Washer2D(&obj.WasherParms{InnerRadius: 1, OuterRadius: 2})
		}},
		// 3D
		{name: "Box3D", mk3: func() (sdf.SDF3, error) { return box3(), nil }},
		{name: "Sphere3D", mk3: func() (sdf.SDF3, error) { return sdf.Sphere3D(1) }},
		{name: "Cylinder3D", mk3: func() (sdf.SDF3, error) { return sdf.Cylinder3D(2, 1, 0.1) }},
		{name: "Capsule3D", mk3: func() (sdf.SDF3, error) { return sdf.Capsule3D(3, 0.7) }},
		{name: "Cone3D", mk3: func() (sdf.SDF3, error) { return sdf.Cone3D(2, 1, 0.4, 0.05) }},
		{name: "Transform3D", mk3: func() (sdf.SDF3, error) {
			return sdf.Transform3D(box3(), sdf.RotateX(0.4).Mul(sdf.Translate3d(v3.Vec{X: 1}))), nil
		}},
		{name: "ScaleUniform3D", mk3: func() (sdf.SDF3, error) { return sdf.ScaleUniform3D(box3(), 1.7), nil }},
		{name: "Union3D", mk3: func() (sdf.SDF3, error) {
			return sdf.Union3D(box3(), sdf.Transform3D(sphere(), sdf.Translate3d(v3.Vec{X: 1}))), nil
		}},
		{name: "Difference3D", mk3: func() (sdf.SDF3, error) { return sdf.Difference3D(box3(), sphere()), nil }},
		{name: "Intersect3D", mk3: func() (sdf.SDF3, error) { return sdf.Intersect3D(box3(), sphere()), nil }},
		{name: "Cut3D", mk3: func() (sdf.SDF3, error) { return sdf.Cut3D(sphere(), v3.Vec{}, v3.Vec{X: 1, Y: 1, Z: 1}), nil }},
		{name: "Offset3D", mk3: func() (sdf.SDF3, error) { return sdf.Offset3D(box3(), 0.1), nil }},
		{name: "Shell3D", mk3: func() (sdf.SDF3, error) { return sdf.Shell3D(sphere(), 0.1) }},
		{name: "Elongate3D", mk3: func() (sdf.SDF3, error) { return sdf.Elongate3D(sphere(), v3.Vec{X: 1, Y: 0.5, Z: 0}), nil }},
		{name: "Array3D", mk3: func() (sdf.SDF3, error) {
			return sdf.Array3D(sphere(), v3i.Vec{X: 2, Y: 2, Z: 2}, v3.Vec{X: 2.5, Y: 2.5, Z: 2.5}), nil
		}},
		{name: "RotateCopy3D", mk3: func() (sdf.SDF3, error) {
			return sdf.RotateCopy3D(sdf.Transform3D(box3(), sdf.Translate3d(v3.Vec{X: 3})), 5), nil
		}},
		{name: "RotateUnion3D", mk3: func() (sdf.SDF3, error) {
			return sdf.RotateUnion3D(sdf.Transform3D(box3(), sdf.Translate3d(v3.Vec{X: 3})), 4, sdf.RotateZ(math.Pi/2)), nil
		}},
		{name: "Extrude3D", mk3: func() (sdf.SDF3, error) { return sdf.Extrude3D(box2(), 1), nil }},
		{name: "Extrude3D(Cache2D)", mk3: func() (sdf.SDF3, error) {
			return sdf.Extrude3D(sdf.Cache2D(must2(sdf.Polygon2D(poly))), 1), nil
		}},
		{name: "TwistExtrude3D", mk3: func() (sdf.SDF3, error) { return sdf.TwistExtrude3D(box2(), 2, 1.0), nil }},
		{name: "ScaleExtrude3D", mk3: func() (sdf.SDF3, error) { return sdf.ScaleExtrude3D(box2(), 2, v2.Vec{X: 0.5, Y: 0.7}), nil }},
		{name: "ExtrudeRounded3D", mk3: func() (sdf.SDF3, error) { return sdf.ExtrudeRounded3D(box2(), 1, 0.2) }},
		{name: "Loft3D", mk3: func() (sdf.SDF3, error) { return sdf.Loft3D(box2(), circle(), 2, 0.1) }},
		{name: "Revolve3D", mk3: func() (sdf.SDF3, error) {
			return sdf.Revolve3D(sdf.Transform2D(circle(), sdf.Translate2d(v2.Vec{X: 3})))
		}},
		{name: "RevolveTheta3D", mk3: func() (sdf.SDF3, error) {
			return sdf.RevolveTheta3D(sdf.Transform2D(circle(), sdf.Translate2d(v2.Vec{X: 3})), 2.0)
		}},
		{name: "Screw3D", mk3: func() (sdf.SDF3, error) {
			t, err := sdf.ISOThread(2, 0.5, true)
			if err != nil {
				return nil, err
			}
			return sdf.Screw3D(t, 4, 0, 0.5, 1)
		}},
		{name: "VoxelSDF3", mk3: func() (sdf.SDF3, error) { return sdf.NewVoxelSDF3(sphere(), 8, nil), nil }},
		{name: "VoxelSDF3(non-finite corners)", mk3: func() (sdf.SDF3, error) {
			// a field that is -Inf deep inside (as an exponential blend of a big object is): some voxel corners, and
			// the values interpolated from them, are not finite
			return sdf.NewVoxelSDF3(infCore{sphere()}, 10, nil), nil
		}},
		{name: "Mesh3D", mk3: func() (sdf.SDF3, error) {
			return sdf.Mesh3D(render.ToTriangles(box3(), render.NewMarchingCubesOctree(6)))
		}},
		{name: "ImportTriMesh", mk3: func() (sdf.SDF3, error) {
			return obj.ImportTriMesh(render.ToTriangles(box3(), render.NewMarchingCubesOctree(6)), 3, 3, 5), nil
		}},
		{name: "ImportTriMesh(with zero-area triangles)", mk3: func() (sdf.SDF3, error) {
			// meshes from other tools contain triangles with repeated vertices; whatever the import does with
			// them must not happen lazily inside Evaluate
			ts := render.ToTriangles(box3(), render.NewMarchingCubesOctree(6))
			n := len(ts)
			for i := 0; i < n; i += 7 {
				t := *ts[i]
				ts = append(ts, &sdf.Triangle3{t[0], t[0], t[1]}, &sdf.Triangle3{t[2], t[1], t[2]})
			}
			return obj.ImportTriMesh(ts, 8, 3, 5), nil
		}},
		{name: "ImportTriMesh(long prism 20)", mk3: func() (sdf.SDF3, error) { return obj.ImportTriMesh(longPrism(20), 20, 3, 5), nil }},
		{name: "ImportTriMesh(long prism 12)", mk3: func() (sdf.SDF3, error) { return obj.ImportTriMesh(longPrism(12), 8, 3, 5), nil }},
		{name: "Union3D+RoundMin", mk3: func() (sdf.SDF3, error) {
			u := sdf.Union3D(box3(), sdf.Transform3D(must3(sdf.Sphere3D(1)), sdf.Translate3d(v3.Vec{X: 1})))
			u.(*sdf.UnionSDF3).SetMin(sdf.RoundMin(0.4))
			return u, nil
		}},
		{name: "RotateUnion3D+RoundMin", mk3: func() (sdf.SDF3, error) {
			u := sdf.RotateUnion3D(sdf.Transform3D(box3(), sdf.Translate3d(v3.Vec{X: 1.2})), 5, sdf.RotateZ(sdf.Tau/5))
			u.(*sdf.RotateUnionSDF3).SetMin(sdf.RoundMin(0.3))
			return u, nil
		}},
		{name: "Array3D+ChamferMin", mk3: func() (sdf.SDF3, error) {
			u := sdf.Array3D(must3(sdf.Sphere3D(1)), v3i.Vec{X: 3, Y: 2, Z: 1}, v3.Vec{X: 1.6, Y: 1.7, Z: 1})
			u.(*sdf.ArraySDF3).SetMin(sdf.ChamferMin(0.3))
			return u, nil
		}},
		{name: "ImportSTL", mk3: func() (sdf.SDF3, error) { return obj.ImportSTL(repoFile("teapot.stl"), 3, 3, 5) }},
		{name: "Bolt", mk3: func() (sdf.SDF3, error) {
			return obj.Bolt(&obj.BoltParms{Thread: "M4x0.7", Style: "hex", TotalLength: 8, ShankLength: 2})
		}},
		{name: "Nut", mk3: func() (sdf.SDF3, error) { return obj.Nut(&obj.NutParms{Thread: "M4x0.7", Style: "hex"}) }},
		{name: "Washer3D", mk3: func() (sdf.SDF3, error) {
			return obj.Washer3D(&obj.WasherParms{Thickness: 0.5, InnerRadius: 1, OuterRadius: 2, Remove: 0.2})
		}},
		{name: "Standoff3D", mk3: func() (sdf.SDF3, error) {
			return obj.Standoff3D(&obj.StandoffParms{PillarHeight: 4, PillarDiameter: 2, HoleDepth: 2, HoleDiameter: 0.8, NumberWebs: 3, WebHeight: 2, WebDiameter: 4, WebWidth: 0.4})
		}},
		{name: "Pipe3D", mk3: func() (sdf.SDF3, error) { return obj.Pipe3D(2, 1.5, 3) }},
		{name: "Hex3D", mk3: func() (sdf.SDF3, error) { return obj.Hex3D(1, 1, 0.1) }},
	}
	return L
}

// longPrism: a closed n-sided prism about the z-axis, 20 times longer than wide (2n side triangles that span the
// whole mesh, n small ones on each end), and a small cube beside each end.
func longPrism(n int) []*sdf.Triangle3 {
	const r, hz = 2.0, 20.0
	ring := func(i int, z float64) v3.Vec {
		a := sdf.Tau * float64(i%n) / float64(n)
		return v3.Vec{X: r * math.Cos(a), Y: r * math.Sin(a), Z: z}
	}
	var m []*sdf.Triangle3
	for i := 0; i < n; i++ {
		a0, a1 := ring(i, -hz), ring(i+1, -hz)
		b0, b1 := ring(i, hz), ring(i+1, hz)
		m = append(m, &sdf.Triangle3{a0, a1, b1}, &sdf.Triangle3{a0, b1, b0},
			&sdf.Triangle3{v3.Vec{Z: -hz}, a1, a0}, &sdf.Triangle3{v3.Vec{Z: hz}, b0, b1})
	}
	cube, _ := sdf.Box3D(v3.Vec{X: 1, Y: 1, Z: 1}, 0)
	for _, z := range []float64{-15, 15} {
		m = append(m, render.ToTriangles(sdf.Transform3D(cube, sdf.Translate3d(v3.Vec{X: 6, Z: z})), render.NewMarchingCubesOctree(4))...)
	}
	return m
}

// ---- deep digest of reachable state -------------------------------------------------

type hasher struct {
	seen map[uintptr]bool
	h    uint64
}

func (hs *hasher) mix(x uint64) { hs.h = (hs.h ^ x) * 1099511628211 }

func (hs *hasher) walk(v reflect.Value, depth int) {
	if depth > 60 {
		return
	}
	switch v.Kind() {
	case reflect.Bool:
		if v.Bool() {
			hs.mix(1)
		} else {
			hs.mix(2)
		}
	case reflect.Int, reflect.Int8, reflect.Int16, reflect.Int32, reflect.Int64:
		hs.mix(uint64(v.Int()))
	case reflect.Uint, reflect.Uint8, reflect.Uint16, reflect.Uint32, reflect.Uint64, reflect.Uintptr:
		hs.mix(v.Uint())
	case reflect.Float32, reflect.Float64:
		hs.mix(math.Float64bits(v.Float()))
	case reflect.String:
		f := fnv.New64a()
		f.Write([]byte(v.String()))
		hs.mix(f.Sum64())
	case reflect.Ptr:
		if v.IsNil() {
			hs.mix(3)
			return
		}
		p := v.Pointer()
		if hs.seen[p] {
			hs.mix(4)
			return
		}
		hs.seen[p] = true
		hs.walk(v.Elem(), depth+1)
	case reflect.Interface:
		if v.IsNil() {
			hs.mix(5)
			return
		}
		hs.walk(v.Elem(), depth+1)
	case reflect.Struct:
		t := v.Type()
		if t.PkgPath() == "sync" || t.PkgPath() == "sync/atomic" {
			// lock words are the same again once the call has returned
			if v.CanAddr() {
				sz := t.Size()
				b := unsafe.Slice((*byte)(unsafe.Pointer(v.UnsafeAddr())), sz)
				f := fnv.New64a()
				f.Write(b)
				hs.mix(f.Sum64())
			}
			return
		}
		for i := 0; i < v.NumField(); i++ {
			f := v.Field(i)
			if !f.CanInterface() && f.CanAddr() {
				f = reflect.NewAt(f.Type(), unsafe.Pointer(f.UnsafeAddr())).Elem()
			}
			hs.walk(f, depth+1)
		}
	case reflect.Slice:
		if v.IsNil() {
			hs.mix(6)
			return
		}
		hs.mix(uint64(v.Len()))
		n := v.Len()
		step := 1
		if n > 4096 {
			step = n / 4096
		}
		for i := 0; i < n; i += step {
			hs.walk(v.Index(i), depth+1)
		}
	case reflect.Array:
		for i := 0; i < v.Len(); i++ {
			hs.walk(v.Index(i), depth+1)
		}
	case reflect.Map:
		if v.IsNil() {
			hs.mix(7)
			return
		}
		hs.mix(uint64(v.Len()))
		var parts []uint64
		it := v.MapRange()
		for it.Next() {
			sub := &hasher{seen: hs.seen}
			sub.walk(it.Key(), depth+1)
			sub.walk(it.Value(), depth+1)
			parts = append(parts, sub.h)
		}
		sort.Slice(parts, func(i, j int) bool { return parts[i] < parts[j] })
		for _, p := range parts {
			hs.mix(p)
		}
	case reflect.Func, reflect.Chan, reflect.UnsafePointer:
		hs.mix(8)
	}
}

func deepDigest(x interface{}) uint64 {
	hs := &hasher{seen: map[uintptr]bool{}, h: 1469598103934665603}
	v := reflect.ValueOf(x)
	hs.walk(v, 0)
	return hs.h
}

// ---- observations -------------------------------------------------------------------

// infCore is -Inf where the wrapped shape is more than 0.4 inside.
type infCore struct{ s sdf.SDF3 }

func (c infCore) Evaluate(p v3.Vec) float64 {
	d := c.s.Evaluate(p)
	if d < -0.4 {
		return math.Inf(-1)
	}
	return d
}
func (c infCore) BoundingBox() sdf.Box3 { return c.s.BoundingBox() }

type concObs struct {
	Ev       string `json:"ev"`
	Shape    string `json:"shape"`
	Dim      int    `json:"dim"`
	Mutating bool   `json:"mutating"` // deep digest changed across sequential Evaluate calls
	Race     bool   `json:"race"`     // race detector report / runtime fault during concurrent Evaluate
	Site     string `json:"site"`     // first library frame of the report
	Fault    string `json:"fault"`    // runtime fatal error text, if any
	Mismatch int    `json:"mismatch"` // concurrent results that differ from the sequential values
	Evals    int    `json:"evals"`
	Built    bool   `json:"built"`
	Unstable bool   `json:"unstable"` // two instances built one after the other differ in value (seeded random sampling in the constructor)
	Err      string `json:"err,omitempty"`
}

func probePoints2(bb sdf.Box2, n int, r *rand.Rand) []v2.Vec {
	c, s := bb.Center(), bb.Size()
	ps := make([]v2.Vec, n)
	for i := range ps {
		// a small set of distinct points so that caches see repeated and colliding keys
		k := r.Intn(64)
		ps[i] = v2.Vec{X: c.X + s.X*(float64(k%8)/7-0.5)*1.2, Y: c.Y + s.Y*(float64(k/8)/7-0.5)*1.2}
	}
	return ps
}

func probePoints3(bb sdf.Box3, n int, r *rand.Rand) []v3.Vec {
	c, s := bb.Center(), bb.Size()
	ps := make([]v3.Vec, n)
	for i := range ps {
		k := r.Intn(125)
		ps[i] = v3.Vec{X: c.X + s.X*(float64(k%5)/4-0.5)*1.2, Y: c.Y + s.Y*(float64((k/5)%5)/4-0.5)*1.2, Z: c.Z + s.Z*(float64(k/25)/4-0.5)*1.2}
	}
	return ps
}

// c10-child <shape name>: runs in the race-enabled binary. Prints one concObs (without race fields,
// which the parent fills from stderr / exit status).
func c10Child(args []string) error {
	name := strings.Join(args, " ")
	var sc *shapeCtor
	for _, s := range shapeList() {
		if s.name == name {
			s := s
			sc = &s
		}
	}
	if sc == nil {
		return fmt.Errorf("unknown shape %q", name)
	}
	o := concObs{Ev: "conc", Shape: name}
	rnd := rand.New(rand.NewSource(seed()))
	G := runtime.NumCPU()
	if G < 4 {
		G = 4
	}
	const per = 400
	if sc.mk2 != nil {
		o.Dim = 2
		ref, err := sc.mk2()
		if err != nil {
			o.Err = err.Error()
			emit(o)
			return nil
		}
		o.Built = true
		ps := probePoints2(ref.BoundingBox(), per, rnd)
		d0 := deepDigest(ref)
		want := make([]float64, len(ps))
		for i, p := range ps {
			want[i] = ref.Evaluate(p)
		}
		o.Mutating = deepDigest(ref) != d0
		cold, _ := sc.mk2()
		var wg sync.WaitGroup
		var mu sync.Mutex
		vals := make([][]float64, G)
		for g := 0; g < G; g++ {
			vals[g] = make([]float64, len(ps))
			wg.Add(1)
			go func(g int) {
				defer wg.Done()
				for i := range ps {
					j := (i + g*37) % len(ps)
					vals[g][j] = cold.Evaluate(ps[j])
				}
			}(g)
		}
		wg.Wait()
		// the reference is the sequential value of another instance - unless the constructor is not reproducible
		// within one process (Bezier sampling draws from the library's seeded random source, so two text shapes
		// differ slightly): then the instance's own sequential values, taken afterwards
		// reference: the instance's own sequential values, taken afterwards (two instances built one after the
		// other may differ slightly: Bezier sampling draws from the library's seeded random source); a shape that
		// keeps state across calls must in addition agree with the other instance, or a race that corrupted the
		// state for good would go unseen
		same := func(a, b float64) bool { return a == b || (math.IsNaN(a) && math.IsNaN(b)) }
		own := make([]float64, len(ps))
		for i, p := range ps {
			own[i] = cold.Evaluate(p)
			if !same(own[i], want[i]) {
				o.Unstable = true
			}
		}
		for g := 0; g < G; g++ {
			for j := range ps {
				if v := vals[g][j]; !same(v, own[j]) || (o.Mutating && !same(v, want[j])) {
					o.Mismatch++
				}
			}
			o.Evals += len(ps)
		}
		// a shape that keeps state across Evaluate calls (a cache) is also driven through its growth:
		// more than 2^20 distinct points, evaluated concurrently (quick tier: one such shape)
		if o.Mutating && (tier() == "thorough" || name == "Cache2D(Circle2D)") {
			const side = 1100
			bb := ref.BoundingBox()
			c, sz := bb.Center(), bb.Size()
			pt := func(i int) v2.Vec {
				return v2.Vec{X: c.X + sz.X*(float64(i%side)/side-0.5)*1.3, Y: c.Y + sz.Y*(float64(i/side)/side-0.5)*1.3}
			}
			total := side * side
			big, _ := sc.mk2()
			var wg2 sync.WaitGroup
			for g := 0; g < G; g++ {
				wg2.Add(1)
				go func(g int) {
					defer wg2.Done()
					bad := 0
					for i := g; i < total; i += G {
						p := pt(i)
						v := big.Evaluate(p)
						if i%97 == 0 {
							// spot-check against the reference instance (sequentially consistent per point)
							mu.Lock()
							w := ref.Evaluate(p)
							mu.Unlock()
							if v != w {
								bad++
							}
						}
					}
					mu.Lock()
					o.Mismatch += bad
					o.Evals += total / G
					mu.Unlock()
				}(g)
			}
			wg2.Wait()
		}
	} else {
		o.Dim = 3
		ref, err := sc.mk3()
		if err != nil {
			o.Err = err.Error()
			emit(o)
			return nil
		}
		o.Built = true
		ps := probePoints3(ref.BoundingBox(), per, rnd)
		d0 := deepDigest(ref)
		want := make([]float64, len(ps))
		for i, p := range ps {
			want[i] = ref.Evaluate(p)
		}
		o.Mutating = deepDigest(ref) != d0
		cold, _ := sc.mk3()
		var wg sync.WaitGroup
		vals := make([][]float64, G)
		for g := 0; g < G; g++ {
			vals[g] = make([]float64, len(ps))
			wg.Add(1)
			go func(g int) {
				defer wg.Done()
				for i := range ps {
					j := (i + g*37) % len(ps)
					vals[g][j] = cold.Evaluate(ps[j])
				}
			}(g)
		}
		wg.Wait()
		// reference: the instance's own sequential values, taken afterwards (two instances built one after the
		// other may differ slightly: Bezier sampling draws from the library's seeded random source); a shape that
		// keeps state across calls must in addition agree with the other instance, or a race that corrupted the
		// state for good would go unseen
		same := func(a, b float64) bool { return a == b || (math.IsNaN(a) && math.IsNaN(b)) }
		own := make([]float64, len(ps))
		for i, p := range ps {
			own[i] = cold.Evaluate(p)
			if !same(own[i], want[i]) {
				o.Unstable = true
			}
		}
		for g := 0; g < G; g++ {
			for j := range ps {
				if v := vals[g][j]; !same(v, own[j]) || (o.Mutating && !same(v, want[j])) {
					o.Mismatch++
				}
			}
			o.Evals += len(ps)
		}
		// what the uniform marching cubes renderer does: one evaluation worker per CPU
		cold2, _ := sc.mk3()
		a := render.ToTriangles(cold2, render.NewMarchingCubesUniform(10))
		b := render.ToTriangles(ref, render.NewMarchingCubesOctree(10))
		_ = b
		// two renders at once share the evaluation pool: each must still get its own values (compare with
		// the render that ran alone)
		other, _ := sc.mk3()
		a13 := render.ToTriangles(other, render.NewMarchingCubesUniform(13))
		for round := 0; round < 3; round++ {
			var r10, r13 []*sdf.Triangle3
			var wg3 sync.WaitGroup
			start := make(chan struct{})
			wg3.Add(2)
			go func() { defer wg3.Done(); <-start; r10 = render.ToTriangles(cold2, render.NewMarchingCubesUniform(10)) }()
			go func() { defer wg3.Done(); <-start; r13 = render.ToTriangles(other, render.NewMarchingCubesUniform(13)) }()
			close(start)
			wg3.Wait()
			if digestTris(r10) != digestTris(a) || len(r10) != len(a) {
				o.Mismatch++
			}
			if digestTris(r13) != digestTris(a13) || len(r13) != len(a13) {
				o.Mismatch++
			}
		}
	}
	emit(o)
	return nil
}

var raceSite = regexp.MustCompile(`github\.com/deadsy/sdfx/[\w/]+\.\(?\*?[\w]+\)?\.?[\w]*`)

// c10-run <race binary>: one child per shape.
func c10Run(args []string) error {
	if len(args) < 1 {
		return fmt.Errorf("usage: c10-run <race-binary> [shape...]")
	}
	bin := args[0]
	only := map[string]bool{}
	for _, a := range args[1:] {
		only[a] = true
	}
	shapes := shapeList()
	res := make([]concObs, len(shapes))
	sem := make(chan struct{}, 4)
	var wg sync.WaitGroup
	for i, s := range shapes {
		if len(only) > 0 && !only[s.name] {
			res[i].Ev = ""
			continue
		}
		wg.Add(1)
		sem <- struct{}{}
		go func(i int, s shapeCtor) {
			defer wg.Done()
			defer func() { <-sem }()
			cmd := exec.Command(bin, "c10-child", s.name)
			cmd.Env = append(os.Environ(), "GORACE=halt_on_error=0 exitcode=66", "GOTRACEBACK=single")
			var so, se bytes.Buffer
			cmd.Stdout, cmd.Stderr = &so, &se
			err := cmd.Run()
			o := concObs{Ev: "conc", Shape: s.name}
			line := strings.TrimSpace(so.String())
			if line != "" {
				json.Unmarshal([]byte(strings.Split(line, "\n")[0]), &o)
			}
			stderr := se.String()
			if strings.Contains(stderr, "WARNING: DATA RACE") {
				o.Race = true
				if m := raceSite.FindString(stderr); m != "" {
					o.Site = m
				}
			}
			if i := strings.Index(stderr, "fatal error:"); i >= 0 {
				o.Race = true
				end := strings.IndexByte(stderr[i:], '\n')
				if end < 0 {
					end = len(stderr) - i
				}
				o.Fault = stderr[i : i+end]
			}
			if err != nil && !o.Race && line == "" {
				o.Err = fmt.Sprintf("child failed: %v: %s", err, tailStr(stderr, 300))
			}
			res[i] = o
		}(i, s)
	}
	wg.Wait()
	for _, o := range res {
		if o.Ev != "" {
			emit(o)
		}
	}
	return nil
}

func tailStr(s string, n int) string {
	if len(s) > n {
		return s[len(s)-n:]
	}
	return s
}

func v2i2(x, y int) (r struct{ X, Y int }) { r.X, r.Y = x, y; return }

func init() {
	register("c10-child", c10Child)
	register("c10-run", c10Run)
}
