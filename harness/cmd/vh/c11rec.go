package main

import (
	"fmt"
	"os"
	"path/filepath"

	"github.com/deadsy/sdfx/render"
	"github.com/deadsy/sdfx/sdf"
	v3 "github.com/deadsy/sdfx/vec/v3"
)

type pipeRec struct {
	Ev     string   `json:"ev"`
	Sink   string   `json:"sink"`
	Name   string   `json:"name"`
	Events [][3]int `json:"events"`
	Items  int      `json:"items"`
}

// c11-record: free-running real renders with the hooks logging (no gating).
// args: "tri" or "line"
func c11Record(args []string) error {
	kind := "tri"
	if len(args) > 0 {
		kind = args[0]
	}
	dir, err := os.MkdirTemp("", "vh-c11r-")
	if err != nil {
		return err
	}
	defer os.RemoveAll(dir)
	sp, _ := sdf.Sphere3D(1)
	bx, _ := sdf.Box3D(v3.Vec{X: 1, Y: 2, Z: 3}, 0.1)
	ci, _ := sdf.Circle2D(1)
	run := func(sink, name string, f func(path string)) {
		g := newGate()
		g.open, g.log = true, true
		sdf.VerifHook = g.hookSdf
		render.VerifHook = g.hookRender
		f(filepath.Join(dir, "out."+sink))
		sdf.VerifHook, render.VerifHook = nil, nil
		emit(pipeRec{Ev: "piperec", Sink: sink, Name: name, Events: g.events})
	}
	if kind == "tri" {
		for _, n := range []int{6, 14} {
			n := n
			run("mem", fmt.Sprintf("sphere octree %d", n), func(string) { render.ToTriangles(sp, render.NewMarchingCubesOctree(n)) })
			run("stl", fmt.Sprintf("box octree %d", n), func(p string) { render.ToSTL(bx, p, render.NewMarchingCubesOctree(n)) })
			run("3mf", fmt.Sprintf("sphere octree %d", n), func(p string) { render.To3MF(sp, p, render.NewMarchingCubesOctree(n)) })
		}
		run("mem", "sphere uniform 7", func(string) { render.ToTriangles(sp, render.NewMarchingCubesUniform(7)) })
		run("stl", "sphere uniform 9", func(p string) { render.ToSTL(sp, p, render.NewMarchingCubesUniform(9)) })
	} else {
		for _, n := range []int{20, 90} {
			n := n
			run("dxf", fmt.Sprintf("circle quadtree %d", n), func(p string) { render.ToDXF(ci, p, render.NewMarchingSquaresQuadtree(n)) })
			run("svg", fmt.Sprintf("circle uniform %d", n/2), func(p string) { render.ToSVG(ci, p, render.NewMarchingSquaresUniform(n/2)) })
		}
	}
	return nil
}

func init() { register("c11-record", c11Record) }
