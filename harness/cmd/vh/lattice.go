package main

import (
	"math"
	"sync/atomic"

	"github.com/deadsy/sdfx/sdf"
	v2 "github.com/deadsy/sdfx/vec/v2"
	v3 "github.com/deadsy/sdfx/vec/v3"
)

// Class values of the sign/zero abstraction used by the March* specifications:
// 0 = N (<= -eps), 1 = n (negative, within eps of 0), 2 = z (>= 0, within eps), 3 = P (>= eps).
var classVal = [4]float64{-0.25, -1e-13, 0, 0.25}

// field3 is a multilinear lattice field: values at integer-indexed lattice points
// origin + h*(i,j,k), clamped outside. It is continuous, so whatever points the
// renderer samples it is a legitimate (tiny-gradient, hence 1-Lipschitz) field;
// when the renderer samples exactly the lattice points the rendered mesh is
// predicted exactly by the specification.
type field3 struct {
	n      [3]int // number of lattice points per axis
	val    []float64
	origin v3.Vec
	h      float64
	bb     sdf.Box3
	off    int64 // evaluations that were not on a lattice point
	evals  int64
	half   bool // half-lattice points (cube centres of the octree) also count as on-lattice
}

func (f *field3) at(i, j, k int) float64 {
	return f.val[(i*f.n[1]+j)*f.n[2]+k]
}

func clampi(i, lo, hi int) int {
	if i < lo {
		return lo
	}
	if i > hi {
		return hi
	}
	return i
}

func (f *field3) Evaluate(p v3.Vec) float64 {
	atomic.AddInt64(&f.evals, 1)
	g := [3]float64{(p.X - f.origin.X) / f.h, (p.Y - f.origin.Y) / f.h, (p.Z - f.origin.Z) / f.h}
	var i0 [3]int
	var fr [3]float64
	on := true
	for a := 0; a < 3; a++ {
		r := math.Round(g[a])
		if math.Abs(g[a]-r) < 1e-9 {
			g[a] = r
		} else if r2 := math.Round(2 * g[a]); !(f.half && math.Abs(2*g[a]-r2) < 1e-9) {
			on = false
		}
		fl := math.Floor(g[a])
		i0[a] = int(fl)
		fr[a] = g[a] - fl
		if i0[a] < 0 {
			i0[a], fr[a] = 0, 0
		}
		if i0[a] >= f.n[a]-1 {
			i0[a], fr[a] = f.n[a]-1, 0
		}
	}
	if !on {
		atomic.AddInt64(&f.off, 1)
	}
	if fr[0] == 0 && fr[1] == 0 && fr[2] == 0 {
		return f.at(i0[0], i0[1], i0[2])
	}
	s := 0.0
	for d := 0; d < 8; d++ {
		w := 1.0
		var idx [3]int
		for a := 0; a < 3; a++ {
			if d>>uint(a)&1 == 1 {
				w *= fr[a]
				idx[a] = clampi(i0[a]+1, 0, f.n[a]-1)
			} else {
				w *= 1 - fr[a]
				idx[a] = i0[a]
			}
		}
		if w != 0 {
			s += w * f.at(idx[0], idx[1], idx[2])
		}
	}
	return s
}

func (f *field3) BoundingBox() sdf.Box3 { return f.bb }

// field2 is the 2D analogue.
type field2 struct {
	n      [2]int
	val    []float64
	origin v2.Vec
	h      float64
	bb     sdf.Box2
	off    int64
	evals  int64
	half   bool
}

func (f *field2) at(i, j int) float64 { return f.val[i*f.n[1]+j] }

func (f *field2) Evaluate(p v2.Vec) float64 {
	atomic.AddInt64(&f.evals, 1)
	g := [2]float64{(p.X - f.origin.X) / f.h, (p.Y - f.origin.Y) / f.h}
	var i0 [2]int
	var fr [2]float64
	on := true
	for a := 0; a < 2; a++ {
		r := math.Round(g[a])
		if math.Abs(g[a]-r) < 1e-9 {
			g[a] = r
		} else if r2 := math.Round(2 * g[a]); !(f.half && math.Abs(2*g[a]-r2) < 1e-9) {
			on = false
		}
		fl := math.Floor(g[a])
		i0[a] = int(fl)
		fr[a] = g[a] - fl
		if i0[a] < 0 {
			i0[a], fr[a] = 0, 0
		}
		if i0[a] >= f.n[a]-1 {
			i0[a], fr[a] = f.n[a]-1, 0
		}
	}
	if !on {
		atomic.AddInt64(&f.off, 1)
	}
	if fr[0] == 0 && fr[1] == 0 {
		return f.at(i0[0], i0[1])
	}
	s := 0.0
	for d := 0; d < 4; d++ {
		w := 1.0
		var idx [2]int
		for a := 0; a < 2; a++ {
			if d>>uint(a)&1 == 1 {
				w *= fr[a]
				idx[a] = clampi(i0[a]+1, 0, f.n[a]-1)
			} else {
				w *= 1 - fr[a]
				idx[a] = i0[a]
			}
		}
		if w != 0 {
			s += w * f.at(idx[0], idx[1])
		}
	}
	return s
}

func (f *field2) BoundingBox() sdf.Box2 { return f.bb }

// decodeWorld expands a world code (base `base` digits, least significant first, one digit per
// interior corner, x fastest... see March*.tla: Digit(code, i)) into class values on the full corner
// grid with a boundary ring of class P.
func decodeWorld(code int64, base int, dims []int) (n []int, cls []int) {
	nd := len(dims)
	n = make([]int, nd)
	total := 1
	for a := 0; a < nd; a++ {
		n[a] = dims[a] + 2
		total *= n[a]
	}
	cls = make([]int, total)
	for i := range cls {
		cls[i] = 3
	}
	// interior corner (x,y[,z]) with 1<=x<=dims[0] ... has digit index
	// (x-1) + dims[0]*((y-1) + dims[1]*(z-1))
	var rec func(a int, idx []int)
	rec = func(a int, idx []int) {
		if a == nd {
			di := 0
			mul := 1
			lin := 0
			for b := 0; b < nd; b++ {
				di += (idx[b] - 1) * mul
				mul *= dims[b]
			}
			for b := 0; b < nd; b++ {
				lin = lin*n[b] + idx[b]
			}
			d := code
			for k := 0; k < di; k++ {
				d /= int64(base)
			}
			c := int(d % int64(base))
			if base == 2 {
				// sign-only worlds: digit 1 = N, 0 = P
				if c == 1 {
					c = 0
				} else {
					c = 3
				}
			} else if base == 3 {
				// N, z, P
				c = []int{0, 2, 3}[c]
			}
			cls[lin] = c
			return
		}
		for x := 1; x <= dims[a]; x++ {
			idx[a] = x
			rec(a+1, idx)
		}
	}
	rec(0, make([]int, nd))
	return n, cls
}
