package main

// C14 - the STL loader is total.
//
//   c14-plan   prints the seeded mutation recipes (T part)
//   c14-run    recipes (stdin NDJSON) -> one observation per recipe (stdout NDJSON).
//              Every file is loaded by render.LoadSTL and obj.ImportSTL in a CHILD process
//              (c14-child) under recover(), with a watchdog, an address-space limit and an
//              allocation measure.  A dead / silent child is an observation (Crash, OverAlloc,
//              Hang) of the recipe it was working on, not a harness failure.
//
// A recipe is either an ABSTRACT file chosen by TLC (layout + line kinds, concretised to bytes
// with a seeded variant) or a seeded byte-level MUTATION of a shipped / generated STL file.

import (
	"bufio"
	"bytes"
	"encoding/binary"
	"encoding/json"
	"fmt"
	"io"
	"math"
	"math/rand"
	"os"
	"os/exec"
	"path/filepath"
	"regexp"
	"runtime"
	"runtime/debug"
	"strconv"
	"strings"
	"sync"
	"sync/atomic"
	"syscall"
	"time"

	"github.com/deadsy/sdfx/obj"
	"github.com/deadsy/sdfx/render"
)

type c14Recipe struct {
	ID      int      `json:"id"`
	Kind    string   `json:"kind"` // "abs" | "mut"
	J       int      `json:"j"`
	Layout  string   `json:"layout"`
	Lines   []string `json:"lines"`
	Variant int      `json:"variant"`
	Src     string   `json:"src"`
	Op      string   `json:"op"`
	S       int64    `json:"s"`
	Seed    int64    `json:"seed"`
}

type c14Obs struct {
	Ev     string    `json:"ev"`
	ID     int       `json:"id"`
	Recipe c14Recipe `json:"recipe"`
	Layout string    `json:"layout"`
	Lines  []string  `json:"lines"`
	Size   int       `json:"size"`
	HcHi   int       `json:"hchi"`
	HcLo   int       `json:"hclo"`
	Cnv    int       `json:"cnv"`   // harness classifier: vertex lines before the scan stops
	Cstop  string    `json:"cstop"` // eof | badfloat | toolong
	Amb    int       `json:"amb"`   // 1: a line length is within 64 bytes of the scanner limit (not compared)
	Out    string    `json:"out"`   // Err | Mesh | Panic | Hang | OverAlloc | Crash
	N      int       `json:"n"`
	Pidx   int       `json:"pidx"`
	Plen   int       `json:"plen"`
	Pmsg   string    `json:"pmsg"`
	Alloc  int       `json:"alloc"` // bytes allocated during LoadSTL, saturating at 2^30
	Imp    string    `json:"imp"`   // obj.ImportSTL: Err | SDF | Nil | Panic | Hang
	ImpMsg string    `json:"impmsg"`
}

func verifRepo() string {
	if p := os.Getenv("VERIF_REPO"); p != "" {
		return p
	}
	return "/repo"
}

// ---------------------------------------------------------------- concretisation

var (
	c14Good = []string{"0", "1", "-1", "2.5", "-0.5", "1e3", "1E-3", "+7", ".5", "5.", "1.0e+00", "-0.118893E+02",
		"inf", "-Inf", "NaN", "0x1p-2", "1e-320", "3.4e38", "1e300", "-0", "00012", "infinity", "1_000",
		"0e-999999999999999999", "-2.5e-77777777777777", "0e999999999999"}
	c14Bad = []string{"abc", "1e999", "-1e999", "1..2", "--1", "0x", "1e", "1,5", "1.0f", "e5", "1__0", "_1", "0x1", "+", ".", "1e+", "nan1",
		// exponents with many digits (a hand-written number parser that scales in a loop never gets through them)
		"1e999999999999999999", "1e99999999999", "1e+000000000000000000000000000000400"}
	c14Sep = []string{" ", "  ", "\t", " \t ", " ", "\v", "\f", " "}
	c14Key = []string{"solid foo", "facet normal 0 0 1", "facet normal 0.955654E-01 -0.966960E+00 0.236339E+00", "outer loop",
		"endloop", "endfacet", "endsolid foo", "solid", "endsolid"}
	c14Garb = []string{"Vertex 1 2 3", "VERTEX 1 2 3", "vertexx 1 2 3", "xvertex 0 0 0", "a b c d", "1 2 3 vertex",
		"vertex\x001 2 3", "\x00\x00\x00", "vertex1 2 3 4", "vertex,1,2,3", "\xff\xfe\xfd vertex 1 2", "normal vertex 1 2", "{}"}
)

// the token classes are checked against strconv once (machinery sanity, not a verdict)
func c14SelfCheck() {
	for _, t := range c14Good {
		if _, err := strconv.ParseFloat(t, 64); err != nil {
			fatal("c14: token %q expected to parse", t)
		}
	}
	for _, t := range c14Bad {
		if _, err := strconv.ParseFloat(t, 64); err == nil {
			fatal("c14: token %q expected not to parse", t)
		}
	}
}

func pick(r *rand.Rand, xs []string) string { return xs[r.Intn(len(xs))] }

func c14Line(kind string, r *rand.Rand) []byte {
	ind := []string{"", "", " ", "  ", "\t", "      "}[r.Intn(6)]
	trail := []string{"", "", " ", "\t"}[r.Intn(4)]
	sep := func() string {
		if r.Intn(3) == 0 {
			return pick(r, c14Sep)
		}
		return " "
	}
	switch kind {
	case "VertexOK":
		return []byte(ind + "vertex" + sep() + pick(r, c14Good) + sep() + pick(r, c14Good) + sep() + pick(r, c14Good) + trail)
	case "VertexBadFloat":
		t := []string{pick(r, c14Good), pick(r, c14Good), pick(r, c14Good)}
		t[r.Intn(3)] = pick(r, c14Bad)
		if r.Intn(4) == 0 {
			t[r.Intn(3)] = pick(r, c14Bad)
		}
		return []byte(ind + "vertex" + sep() + t[0] + sep() + t[1] + sep() + t[2] + trail)
	case "VertexShort":
		n := r.Intn(3)
		s := ind + "vertex"
		for i := 0; i < n; i++ {
			s += sep() + pick(r, c14Good)
		}
		return []byte(s + trail)
	case "VertexLong":
		n := 4 + r.Intn(3)
		s := ind + "vertex"
		for i := 0; i < n; i++ {
			if r.Intn(4) == 0 {
				s += sep() + pick(r, c14Bad)
			} else {
				s += sep() + pick(r, c14Good)
			}
		}
		return []byte(s + trail)
	case "Keyword":
		return []byte(ind + pick(r, c14Key) + trail)
	case "Garbage":
		if r.Intn(3) == 0 {
			n := 1 + r.Intn(200)
			b := make([]byte, n)
			r.Read(b)
			b[0] = 1
			for i := range b {
				if b[i] == '\n' {
					b[i] = 'n'
				}
			}
			return b
		}
		return []byte(ind + pick(r, c14Garb) + trail)
	case "Empty":
		return []byte([]string{"", "", " ", "\t\t", "   "}[r.Intn(5)])
	case "Overlong":
		l := 65700 + r.Intn(5000)
		// now and then a much longer line: beyond 256 KiB, 1 MiB, 2 MiB (any retry / growth scheme of the
		// scanner has its own limits)
		switch r.Intn(40) {
		case 0:
			l = 270000 + r.Intn(1000)
		case 1:
			l = 1048576 + r.Intn(64)
		case 2:
			l = 2100000 + r.Intn(1000)
		}
		switch r.Intn(3) {
		case 0:
			return bytes.Repeat([]byte("x"), l)
		case 1:
			return append([]byte("vertex 0 0 "), bytes.Repeat([]byte("1"), l)...)
		default:
			return append(bytes.Repeat([]byte(" "), l), []byte("vertex 0 0 0")...)
		}
	}
	fatal("c14: unknown line kind %q", kind)
	return nil
}

func c14Filler(n int, r *rand.Rand) []byte {
	b := make([]byte, n)
	if r.Intn(2) == 0 {
		for i := range b {
			if i%97 == 96 {
				b[i] = '\n'
			} else {
				b[i] = ' '
			}
		}
		return b
	}
	r.Read(b)
	start := true
	run := 0
	for i := range b {
		if start {
			b[i] = 1 // a line of filler never starts with the keyword
			start = false
		}
		run++
		if run >= 400 {
			b[i] = '\n'
		}
		if b[i] == '\n' {
			start = true
			run = 0
		}
	}
	return b
}

// c14Concrete builds the bytes of an abstract file.
func c14Concrete(rc c14Recipe) []byte {
	r := rand.New(rand.NewSource(rc.Seed*1000003 + int64(rc.J)*7919 + int64(rc.Variant)*104729 + 17))
	eol := []string{"\n", "\n", "\r\n"}[r.Intn(3)]
	var text bytes.Buffer
	for i, k := range rc.Lines {
		text.Write(c14Line(k, r))
		if i < len(rc.Lines)-1 || rc.Layout != "text" || r.Intn(2) == 0 {
			text.WriteString(eol)
		}
	}
	switch rc.Layout {
	case "short":
		b := text.Bytes()
		k := []int{0, 1, 79, 80, 83, 40, 10}[r.Intn(7)]
		if r.Intn(3) == 0 {
			k = r.Intn(84)
		}
		if len(b) > k {
			b = b[:k]
		}
		return b
	case "text":
		b := text.Bytes()
		if len(b) < 84 || r.Intn(2) == 0 {
			pre := "solid " + strings.Repeat("m", 80+r.Intn(40)) + eol // at least 84 bytes: the layout is meant to reach the size test
			b = append([]byte(pre), b...)
		}
		return b
	}
	// binary layouts: 80-byte header, count, body = EOL + text + filler
	hdr := make([]byte, 80)
	switch r.Intn(3) {
	case 0:
		r.Read(hdr)
	case 1:
		copy(hdr, []byte("solid looks like ascii"+eol))
	}
	body := append([]byte("\n"), text.Bytes()...)
	nrec := (len(body)+49)/50 + r.Intn(4)
	extra := 0
	hc := uint32(nrec)
	switch rc.Layout {
	case "binExact":
	case "binTrunc":
		hc += []uint32{1, 2, 1000}[r.Intn(3)]
	case "binLong":
		if nrec >= 1 && r.Intn(2) == 0 {
			hc--
		} else {
			extra = []int{1, 25, 49}[r.Intn(3)]
		}
	case "binHuge":
		hc = []uint32{0xFFFFFFFF, 0x7FFFFFFF, 0xFFFFFFFE, 100000000, 42949673}[r.Intn(5)]
	case "binWrap":
		hc += 0x80000000 // 50*hc wraps to the true size in 32-bit arithmetic
	default:
		fatal("c14: unknown layout %q", rc.Layout)
	}
	total := 50*nrec + extra
	body = append(body, c14Filler(total-len(body), r)...)
	out := append(hdr, 0, 0, 0, 0)
	binary.LittleEndian.PutUint32(out[80:], hc)
	return append(out, body...)
}

// ---------------------------------------------------------------- mutation

func c14GenBinary(n int, r *rand.Rand) []byte {
	b := make([]byte, 84+50*n)
	copy(b, []byte("generated binary stl"))
	binary.LittleEndian.PutUint32(b[80:], uint32(n))
	for i := 0; i < n; i++ {
		for k := 0; k < 12; k++ {
			binary.LittleEndian.PutUint32(b[84+50*i+4*k:], math.Float32bits(float32(r.NormFloat64()*10)))
		}
	}
	return b
}

func c14GenASCII(n int, r *rand.Rand) []byte {
	var b bytes.Buffer
	b.WriteString("solid generated\n")
	for i := 0; i < n; i++ {
		b.WriteString(" facet normal 0 0 1\n  outer loop\n")
		for k := 0; k < 3; k++ {
			fmt.Fprintf(&b, "   vertex %g %g %g\n", r.NormFloat64()*10, r.NormFloat64()*10, r.NormFloat64()*10)
		}
		b.WriteString("  endloop\n endfacet\n")
	}
	b.WriteString("endsolid generated\n")
	return b.Bytes()
}

func c14Source(src string) []byte {
	if strings.HasPrefix(src, "gen:") {
		p := strings.Split(src, ":")
		n, _ := strconv.Atoi(p[2])
		r := rand.New(rand.NewSource(int64(n)*31 + 5))
		if p[1] == "bin" {
			return c14GenBinary(n, r)
		}
		return c14GenASCII(n, r)
	}
	b, err := os.ReadFile(filepath.Join(verifRepo(), "files", src))
	if err != nil {
		fatal("c14: %v", err)
	}
	return b
}

var c14Ops = []string{"none", "trunc", "extend", "count", "flip", "splice", "insert", "delline", "dupline", "badnum", "joinlines", "cutvertex"}

func lineBounds(b []byte, pos int) (int, int) {
	s := bytes.LastIndexByte(b[:pos], '\n') + 1
	e := bytes.IndexByte(b[pos:], '\n')
	if e < 0 {
		e = len(b)
	} else {
		e += pos + 1
	}
	return s, e
}

func c14Mutate(rc c14Recipe) []byte {
	src := c14Source(rc.Src)
	b := append([]byte(nil), src...)
	r := rand.New(rand.NewSource(rc.S))
	n := len(b)
	rpos := func() int {
		if n == 0 {
			return 0
		}
		return r.Intn(n)
	}
	snippet := func() []byte {
		k := 1 + r.Intn(4)
		return []byte("\n" + strings.Repeat("vertex 1 2 3\n", k))
	}
	switch rc.Op {
	case "none":
	case "trunc":
		cands := []int{0, 1, 79, 80, 83, 84, 85, 133, 134, n - 1, n - 49, n - 50, n / 2, rpos()}
		k := cands[r.Intn(len(cands))]
		if k < 0 {
			k = 0
		}
		if k > n {
			k = n
		}
		b = b[:k]
	case "extend":
		k := []int{1, 49, 50, 51, 100, 5000}[r.Intn(6)]
		switch r.Intn(3) {
		case 0:
			b = append(b, make([]byte, k)...)
		case 1:
			x := make([]byte, k)
			r.Read(x)
			b = append(b, x...)
		default:
			b = append(b, snippet()...)
		}
	case "count":
		if n >= 84 {
			cur := binary.LittleEndian.Uint32(b[80:])
			nt := uint32(0)
			if n >= 84 {
				nt = uint32((n - 84) / 50)
			}
			c := []uint32{0, 1, nt - 1, nt + 1, 2 * nt, 0xFFFFFFFF, nt + 0x80000000, r.Uint32(), cur + 1, nt}[r.Intn(10)]
			binary.LittleEndian.PutUint32(b[80:], c)
		}
	case "flip":
		m := []int{1, 4, 32, 256}[r.Intn(4)]
		for i := 0; i < m && n > 0; i++ {
			b[rpos()] ^= byte(1 << uint(r.Intn(8)))
		}
	case "splice":
		s := snippet()
		if n > len(s) {
			p := r.Intn(n - len(s))
			copy(b[p:], s)
		}
	case "insert":
		p := rpos()
		b = append(b[:p:p], append(snippet(), src[p:]...)...)
	case "delline":
		if n > 0 {
			s, e := lineBounds(b, rpos())
			b = append(b[:s:s], src[e:]...)
		}
	case "dupline":
		if n > 0 {
			s, e := lineBounds(b, rpos())
			b = append(b[:e:e], append(append([]byte(nil), src[s:e]...), src[e:]...)...)
		}
	case "badnum":
		// replace the first digit run after a random position
		p := rpos()
		for p < n && (b[p] < '0' || b[p] > '9') {
			p++
		}
		q := p
		for q < n && b[q] >= '0' && b[q] <= '9' {
			q++
		}
		if p < n {
			b = append(b[:p:p], append([]byte([]string{"1e999", "abc", "--", "1..2"}[r.Intn(4)]), src[q:]...)...)
		}
	case "joinlines":
		p := rpos()
		for i := p; i < n && i < p+70000; i++ {
			if b[i] == '\n' {
				b[i] = ' '
			}
		}
	case "cutvertex":
		// remove one line that contains "vertex" (ASCII facet with a missing vertex line)
		idx := []int{}
		for p := 0; p < n; {
			i := bytes.Index(b[p:], []byte("vertex"))
			if i < 0 {
				break
			}
			idx = append(idx, p+i)
			p += i + 6
		}
		if len(idx) > 0 {
			s, e := lineBounds(b, idx[r.Intn(len(idx))])
			b = append(b[:s:s], src[e:]...)
		}
	default:
		fatal("c14: unknown mutation %q", rc.Op)
	}
	return b
}

func c14Plan(args []string) error {
	r := rand.New(rand.NewSource(seed()*7 + 3))
	srcs := []string{"gen:bin:0", "gen:bin:1", "gen:bin:7", "gen:bin:1500", "gen:ascii:0", "gen:ascii:1", "gen:ascii:2", "gen:ascii:40"}
	m, _ := filepath.Glob(filepath.Join(verifRepo(), "files", "*.stl"))
	for _, p := range m {
		srcs = append(srcs, filepath.Base(p))
	}
	per := 4
	if tier() == "thorough" {
		per = 48
	}
	id := 0
	for _, s := range srcs {
		for _, op := range c14Ops {
			k := per
			if op == "none" {
				k = 1
			}
			for i := 0; i < k; i++ {
				emit(c14Recipe{ID: id, Kind: "mut", Src: s, Op: op, S: r.Int63n(1 << 40), Seed: seed(), Lines: []string{}})
				id++
			}
		}
	}
	return nil
}

func c14Bytes(rc c14Recipe) []byte {
	if rc.Kind == "abs" {
		return c14Concrete(rc)
	}
	return c14Mutate(rc)
}

// ---------------------------------------------------------------- classification (projection)

const c14MaxTok = 64 * 1024

// c14Classify is the harness's own reading of the bytes as text lines: number of good vertex
// lines before the scan stops and why it stops.
func c14Classify(b []byte) (nv int, stop string, amb int) {
	stop = "eof"
	for len(b) > 0 {
		var line []byte
		i := bytes.IndexByte(b, '\n')
		if i < 0 {
			line, b = b, nil
		} else {
			line, b = b[:i], b[i+1:]
		}
		if len(line) > c14MaxTok-64 && len(line) < c14MaxTok+64 {
			amb = 1
		}
		if len(line) >= c14MaxTok {
			return nv, "toolong", amb
		}
		if len(line) > 0 && line[len(line)-1] == '\r' {
			line = line[:len(line)-1]
		}
		f := strings.Fields(string(line))
		if len(f) == 4 && f[0] == "vertex" {
			for _, t := range f[1:] {
				if _, err := strconv.ParseFloat(t, 64); err != nil {
					return nv, "badfloat", amb
				}
			}
			nv++
		}
	}
	return nv, stop, amb
}

func c14Describe(rc c14Recipe, b []byte) c14Obs {
	o := c14Obs{Ev: rc.Kind, ID: rc.ID, Recipe: rc, Layout: rc.Layout, Lines: rc.Lines, Size: len(b), Pidx: 0, Plen: 0}
	if o.Lines == nil {
		o.Lines = []string{}
	}
	if rc.Kind == "mut" {
		o.Layout = "mut"
	}
	if len(b) >= 84 {
		hc := binary.LittleEndian.Uint32(b[80:])
		o.HcHi, o.HcLo = int(hc>>16), int(hc&0xffff)
	}
	o.Cnv, o.Cstop, o.Amb = c14Classify(b)
	return o
}

// ---------------------------------------------------------------- the child: real calls

var c14IdxRe = regexp.MustCompile(`index out of range \[(-?\d+)\] with length (\d+)`)

func panicClass(v interface{}) (string, int, int) {
	s := fmt.Sprint(v)
	if m := c14IdxRe.FindStringSubmatch(s); m != nil {
		i, _ := strconv.Atoi(m[1])
		l, _ := strconv.Atoi(m[2])
		return "index-out-of-range", i, l
	}
	switch {
	case strings.Contains(s, "slice bounds"):
		return "slice-bounds", 0, 0
	case strings.Contains(s, "nil pointer"):
		return "nil-deref", 0, 0
	case strings.Contains(s, "makeslice"):
		return "makeslice", 0, 0
	case strings.Contains(s, "out of memory"):
		return "out-of-memory", 0, 0
	}
	if len(s) > 60 {
		s = s[:60]
	}
	return "other:" + strings.Map(func(r rune) rune {
		if r == '"' || r == '\\' || r < 32 || r > 126 {
			return '_'
		}
		return r
	}, s), 0, 0
}

// watchdog runs f; false if it does not return in time.
func watchdog(d time.Duration, f func()) bool {
	done := make(chan struct{})
	go func() { defer close(done); f() }()
	select {
	case <-done:
		return true
	case <-time.After(d):
		return false
	}
}

func c14Child(args []string) error {
	dir := os.Getenv("VERIF_C14_DIR")
	if dir == "" {
		return fmt.Errorf("VERIF_C14_DIR not set")
	}
	// address-space limit: an allocation by an unvalidated count dies here, not on the host
	lim := uint64(6 << 30)
	syscall.Setrlimit(syscall.RLIMIT_AS, &syscall.Rlimit{Cur: lim, Max: lim})
	debug.SetGCPercent(400)
	path := filepath.Join(dir, fmt.Sprintf("f%d.stl", os.Getpid()))
	defer os.Remove(path)
	readVectors("-", func(raw json.RawMessage) {
		var rc c14Recipe
		if err := json.Unmarshal(raw, &rc); err != nil {
			fatal("bad recipe: %v", err)
		}
		b := c14Bytes(rc)
		o := c14Describe(rc, b)
		if err := os.WriteFile(path, b, 0644); err != nil {
			fatal("%v", err)
		}
		b = nil
		var ms0, ms1 runtime.MemStats
		ok := watchdog(20*time.Second, func() {
			defer func() {
				if p := recover(); p != nil {
					o.Out = "Panic"
					o.Pmsg, o.Pidx, o.Plen = panicClass(p)
				}
			}()
			runtime.ReadMemStats(&ms0)
			mesh, err := render.LoadSTL(path)
			runtime.ReadMemStats(&ms1)
			if err != nil {
				o.Out = "Err"
			} else {
				o.Out = "Mesh"
				o.N = len(mesh)
				for _, t := range mesh {
					if t == nil {
						o.Out = "Panic"
						o.Pmsg = "nil-triangle-in-mesh"
					}
				}
			}
		})
		if !ok {
			o.Out = "Hang"
			o.Imp = "Hang"
			emit(o)
			flush()
			os.Remove(path)
			os.Exit(7)
		}
		if o.Out != "Panic" {
			d := ms1.TotalAlloc - ms0.TotalAlloc
			if d > 1<<30 {
				d = 1 << 30
			}
			o.Alloc = int(d)
		}
		ok = watchdog(60*time.Second, func() {
			defer func() {
				if p := recover(); p != nil {
					o.Imp = "Panic"
					o.ImpMsg, _, _ = panicClass(p)
				}
			}()
			s, err := obj.ImportSTL(path, 20, 3, 5)
			switch {
			case err != nil:
				o.Imp = "Err"
			case s == nil:
				o.Imp = "Nil"
			default:
				o.Imp = "SDF"
			}
		})
		if !ok {
			o.Imp = "Hang"
			emit(o)
			flush()
			os.Remove(path)
			os.Exit(7)
		}
		emit(o)
		flush()
	})
	return nil
}

// ---------------------------------------------------------------- the parent

// c14Hangs counts calls that did not return; after c14HangBudget of them the remaining files are not loaded
// (each hang costs a 20 s watchdog; a loader that hangs on a whole family of files would take hours)
var c14Hangs int32

const c14HangBudget = 12

func c14Shard(recipes []c14Recipe, dir string, res []*c14Obs) {
	pending := recipes
	for len(pending) > 0 {
		if atomic.LoadInt32(&c14Hangs) >= c14HangBudget {
			for _, rc := range pending {
				o := c14Describe(rc, c14Bytes(rc))
				o.Out, o.Imp = "Skipped", "Skipped"
				res[rc.ID] = &o
			}
			return
		}
		cmd := exec.Command(os.Args[0], "c14-child")
		cmd.Env = append(os.Environ(), "VERIF_C14_DIR="+dir)
		stdin, _ := cmd.StdinPipe()
		stdout, _ := cmd.StdoutPipe()
		var stderr bytes.Buffer
		cmd.Stderr = &stderr
		if err := cmd.Start(); err != nil {
			fatal("c14: cannot start child: %v", err)
		}
		go func(p []c14Recipe) {
			w := bufio.NewWriter(stdin)
			for _, rc := range p {
				b, _ := json.Marshal(rc)
				w.Write(b)
				w.WriteByte('\n')
			}
			w.Flush()
			stdin.Close()
		}(pending)
		lines := make(chan []byte)
		go func() {
			rd := bufio.NewReaderSize(stdout, 1<<20)
			for {
				l, err := rd.ReadBytes('\n')
				if len(l) > 1 {
					lines <- l
				}
				if err != nil {
					close(lines)
					return
				}
			}
		}()
		why := ""
	loop:
		for len(pending) > 0 {
			select {
			case l, ok := <-lines:
				if !ok {
					why = "exit"
					break loop
				}
				var o c14Obs
				if err := json.Unmarshal(l, &o); err != nil || o.ID != pending[0].ID {
					fatal("c14: child answered out of order: %s", l)
				}
				res[o.ID] = &o
				pending = pending[1:]
			case <-time.After(120 * time.Second):
				why = "silent"
				break loop
			}
		}
		if why != "exit" {
			cmd.Process.Kill()
			go io.Copy(io.Discard, stdout)
		}
		cmd.Wait()
		code := cmd.ProcessState.ExitCode()
		if why == "exit" && code == 7 {
			atomic.AddInt32(&c14Hangs, 1)
			continue // the child's own watchdog fired; its observation has been received
		}
		if why == "silent" {
			atomic.AddInt32(&c14Hangs, 1)
		}
		if why == "exit" && code == 3 {
			fatal("c14: child failed: %s", stderr.String())
		}
		if len(pending) > 0 && why != "" {
			// the recipe the child was working on when it died / went silent
			rc := pending[0]
			o := c14Describe(rc, c14Bytes(rc))
			e := stderr.String()
			switch {
			case why == "silent":
				o.Out = "Hang"
			case strings.Contains(e, "out of memory") || strings.Contains(e, "cannot allocate memory"):
				o.Out = "OverAlloc"
			default:
				o.Out = "Crash"
			}
			o.Pmsg = "child:" + why
			o.Imp = "Err"
			res[rc.ID] = &o
			pending = pending[1:]
		}
	}
}

func c14Run(args []string) error {
	c14SelfCheck()
	var recipes []c14Recipe
	readVectors("-", func(raw json.RawMessage) {
		var rc c14Recipe
		if err := json.Unmarshal(raw, &rc); err != nil {
			fatal("bad recipe: %v", err)
		}
		rc.ID = len(recipes)
		if rc.Seed == 0 {
			rc.Seed = seed()
		}
		recipes = append(recipes, rc)
	})
	if len(recipes) == 0 {
		return fmt.Errorf("no recipes")
	}
	dir, err := os.MkdirTemp("", "vh-c14-")
	if err != nil {
		return err
	}
	defer os.RemoveAll(dir)
	res := make([]*c14Obs, len(recipes))
	shards := 6
	if len(recipes) < 24 {
		shards = 1
	}
	var wg sync.WaitGroup
	for s := 0; s < shards; s++ {
		var mine []c14Recipe
		for i := s; i < len(recipes); i += shards {
			mine = append(mine, recipes[i])
		}
		wg.Add(1)
		go func(m []c14Recipe) { defer wg.Done(); c14Shard(m, dir, res) }(mine)
	}
	wg.Wait()
	for i, o := range res {
		if o == nil {
			fatal("c14: no observation for recipe %d", i)
		}
		emit(o)
	}
	return nil
}

func init() {
	register("c14-plan", c14Plan)
	register("c14-run", c14Run)
	register("c14-child", c14Child)
}
