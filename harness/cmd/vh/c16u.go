package main

// C16, union part: the REAL sdf.Union2D(...).Evaluate (bounding-box pruned) against the REAL
// (*sdf.UnionSDF2).EvaluateSlow (every operand), with the default minimum and with
// SetMin(PolyMin(k)). Values are projected to integers / sign classes; spec/trace/UnionTrace.tla judges.

import (
	"fmt"
	"math"
	"math/rand"

	"github.com/deadsy/sdfx/sdf"
	v2 "github.com/deadsy/sdfx/vec/v2"
)

type uniOp struct {
	T string `json:"t"` // "b" box [a,c]x[b,d] | "c" circle centre (a,b) radius c
	A int    `json:"a"`
	B int    `json:"b"`
	C int    `json:"c"`
	D int    `json:"d"`
}

type uniObs16 struct {
	Ev       string     `json:"ev"`
	Ops      []uniOp    `json:"ops,omitempty"`
	Kn       int        `json:"kn"`
	Kd       int        `json:"kd"`
	Win      []int      `json:"win,omitempty"`
	Idx      int        `json:"idx"`
	Fs       []int      `json:"fs"`  // sign class of Evaluate      (-1: < -1e-9, 1: > 1e-9, else 0)
	Ss       []int      `json:"ss"`  // sign class of EvaluateSlow
	Eq       []int      `json:"eq"`  // 1: the two float64 values are identical
	Eqr      []int      `json:"eqr"` // 1: EvaluateSlow is the minimum over the operands as they were passed (computed by the harness)
	Un       []int      `json:"un"`  // 1: the operand holding that minimum reports LESS than the distance to its own bounding box
	Fv       []int64    `json:"fv"`  // Evaluate in 1e-6 units (rounded)
	Sv       []int64    `json:"sv"`  // EvaluateSlow in 1e-6 units (rounded)
	operands []sdf.SDF2 // the operands as they were passed to Union2D (nil entries allowed)
	// report only (stripped before validation)
	Desc string      `json:"desc,omitempty"`
	P    [][]float64 `json:"p,omitempty"`
}

func signClass(x float64) int {
	if x < -1e-9 {
		return -1
	}
	if x > 1e-9 {
		return 1
	}
	return 0
}

func c16Micro(x float64) int64 {
	y := math.Round(x * 1e6)
	if math.IsNaN(y) || y > 2e9 {
		return 2000000000
	}
	if y < -2e9 {
		return -2000000000
	}
	return int64(y)
}

func boxAt(x0, y0, x1, y1 float64) sdf.SDF2 {
	b := sdf.Box2D(v2.Vec{X: x1 - x0, Y: y1 - y0}, 0)
	return sdf.Transform2D(b, sdf.Translate2d(v2.Vec{X: (x0 + x1) / 2, Y: (y0 + y1) / 2}))
}

func circleAt(cx, cy, r float64) sdf.SDF2 {
	c, err := sdf.Circle2D(r)
	if err != nil {
		fatal("Circle2D: %v", err)
	}
	return sdf.Transform2D(c, sdf.Translate2d(v2.Vec{X: cx, Y: cy}))
}

// realUnion builds the real union and reaches the concrete type through the interface.
func realUnion(ops []sdf.SDF2, k float64) *sdf.UnionSDF2 {
	s := sdf.Union2D(ops...)
	u, ok := s.(*sdf.UnionSDF2)
	if !ok {
		fatal("Union2D did not return *UnionSDF2 (%T)", s)
	}
	if k > 0 {
		u.SetMin(sdf.PolyMin(k))
	}
	return u
}

func (o *uniObs16) measure(u *sdf.UnionSDF2, p v2.Vec) {
	f := u.Evaluate(p)
	s := u.EvaluateSlow(p)
	eq, eqr, un := 0, 1, 0
	// equal up to the rounding of the operands' own values: an operand evaluated on its boundary returns 1e-15 where
	// the distance to its box is 2e-15, so "no closer than its box" holds only to that accuracy and the pruned and
	// the exhaustive minimum may differ in the last bits (seed 62: 1.33e-15 vs 1.26e-15 at a box corner)
	if f == s || math.Abs(f-s) <= 1e-14*(1+math.Abs(p.X)+math.Abs(p.Y)) {
		eq = 1
	}
	if o.operands != nil && o.Kn == 0 {
		// "what evaluating every operand returns", computed from the operands as they were passed
		m, mi := math.Inf(1), -1
		for i, x := range o.operands {
			if x == nil {
				continue
			}
			if d := x.Evaluate(p); d < m {
				m, mi = d, i
			}
		}
		if m != s {
			eqr = 0
		}
		if mi >= 0 {
			// does the operand that holds the minimum undercut the distance to its own box? (then no pruning by
			// box distance can be exact: the recorded limitation, not a new defect)
			if md := math.Sqrt(o.operands[mi].BoundingBox().MinMaxDist2(p)[0]); md > 0 && m < md*(1-1e-9)-1e-12 {
				un = 1
			}
		}
	}
	o.Fs = append(o.Fs, signClass(f))
	o.Ss = append(o.Ss, signClass(s))
	o.Eq = append(o.Eq, eq)
	o.Eqr = append(o.Eqr, eqr)
	o.Un = append(o.Un, un)
	o.Fv = append(o.Fv, c16Micro(f))
	o.Sv = append(o.Sv, c16Micro(s))
}

func uniObserve(v c16Vec) uniObs16 {
	o := uniObs16{Ev: "uni", Ops: v.Ops, Kn: v.Kn, Kd: v.Kd, Win: v.Win}
	var ops []sdf.SDF2
	for _, e := range v.Ops {
		if e.T == "b" {
			ops = append(ops, boxAt(float64(e.A), float64(e.B), float64(e.C), float64(e.D)))
		} else {
			ops = append(ops, circleAt(float64(e.A), float64(e.B), float64(e.C)))
		}
	}
	k := 0.0
	if v.Kn > 0 {
		k = float64(v.Kn) / float64(v.Kd)
	}
	// nil operands are legal and are dropped by Union2D; where they stand in the argument list is derived
	// from the vector (none / leading / after the first / both)
	if len(ops) >= 2 {
		h := 0
		for _, e := range v.Ops {
			h += e.A*3 + e.B*5 + e.C*7 + e.D
		}
		if h < 0 {
			h = -h
		}
		switch h % 4 {
		case 1:
			ops = append([]sdf.SDF2{nil}, ops...)
		case 2:
			ops = append([]sdf.SDF2{ops[0], nil}, ops[1:]...)
		case 3:
			ops = append([]sdf.SDF2{nil, ops[0], nil}, ops[1:]...)
		}
	}
	u := realUnion(ops, k)
	o.operands = ops
	for y := v.Win[1]; y <= v.Win[3]; y++ {
		for x := v.Win[0]; x <= v.Win[2]; x++ {
			o.measure(u, v2.Vec{X: float64(x), Y: float64(y)})
		}
	}
	return o
}

// c16-urandom [idx]: seeded random real operand sets (2-4 boxes/circles: independent, nested, equal,
// far apart, tiny beside big), default minimum and PolyMin(k) for random real k, random and snapped
// points. With an index only that set is measured (replay).
func c16URandom(args []string) error {
	only := -1
	if len(args) > 0 {
		only = atoi(args[0])
	}
	nset := 150
	if tier() == "thorough" {
		nset = 1200
	}
	for idx := 0; idx < nset; idx++ {
		if only >= 0 && idx != only {
			continue
		}
		r := rand.New(rand.NewSource(seed()*104729 + int64(idx)))
		n := 2 + r.Intn(3)
		mode := r.Intn(5)
		var ops []sdf.SDF2
		var bbs [][4]float64
		desc := ""
		mk := func(x0, y0, x1, y1 float64, circ bool) {
			if circ {
				rad := math.Min(x1-x0, y1-y0) / 2
				ops = append(ops, circleAt((x0+x1)/2, (y0+y1)/2, rad))
				bbs = append(bbs, [4]float64{(x0+x1)/2 - rad, (y0+y1)/2 - rad, (x0+x1)/2 + rad, (y0+y1)/2 + rad})
				desc += "c(" + trimFloat((x0+x1)/2) + "," + trimFloat((y0+y1)/2) + ";" + trimFloat(rad) + ") "
			} else {
				ops = append(ops, boxAt(x0, y0, x1, y1))
				bbs = append(bbs, [4]float64{x0, y0, x1, y1})
				desc += "b(" + trimFloat(x0) + "," + trimFloat(y0) + "," + trimFloat(x1) + "," + trimFloat(y1) + ") "
			}
		}
		rbox := func(x0, y0, x1, y1, minsz float64) (float64, float64, float64, float64) {
			w := minsz + r.Float64()*(x1-x0-minsz)
			h := minsz + r.Float64()*(y1-y0-minsz)
			a := x0 + r.Float64()*(x1-x0-w)
			b := y0 + r.Float64()*(y1-y0-h)
			return a, b, a + w, b + h
		}
		for i := 0; i < n; i++ {
			circ := r.Intn(3) == 0
			switch {
			case mode == 1 && i == 1: // nested in the first
				b := bbs[0]
				x0, y0, x1, y1 := rbox(b[0], b[1], b[2], b[3], 0.01*(b[2]-b[0]))
				mk(x0, y0, x1, y1, circ)
			case mode == 2 && i == n-1: // equal to the first
				b := bbs[0]
				mk(b[0], b[1], b[2], b[3], false)
			case mode == 3: // far apart along x
				x0, y0, x1, y1 := rbox(float64(i)*6, 0, float64(i)*6+2, 10, 0.05)
				mk(x0, y0, x1, y1, circ)
			case mode == 4 && i > 0: // tiny operands
				x0, y0, x1, y1 := rbox(0, 0, 10, 10, 0.01)
				w := 0.02 + r.Float64()*0.1
				mk(x0, y0, x0+w, y0+w, circ)
				_, _ = x1, y1
			default:
				x0, y0, x1, y1 := rbox(0, 0, 10, 10, 0.05)
				if mode == 2 && i == 0 {
					circ = false
				}
				mk(x0, y0, x1, y1, circ)
			}
		}
		if idx%3 == 1 {
			// one operand whose bounding box is not tight: the library's Cut2D / Difference2D / Intersect2D keep the
			// box of their first operand although part or all of the material in it is gone (their values are
			// still no smaller than the distance to that box, so exact pruning is possible)
			j := r.Intn(len(ops))
			b := bbs[j]
			cx, cy := (b[0]+b[2])/2, (b[1]+b[3])/2
			switch r.Intn(4) {
			case 0:
				ops[j] = sdf.Cut2D(ops[j], v2.Vec{X: cx, Y: cy}, v2.Vec{X: r.NormFloat64(), Y: r.NormFloat64()})
				desc += fmt.Sprintf("cut-through-centre(%d) ", j)
			case 1:
				ops[j] = sdf.Cut2D(ops[j], v2.Vec{X: b[2] + 0.5 + 5*r.Float64(), Y: cy}, v2.Vec{X: 0.2 * r.NormFloat64(), Y: []float64{1, -1}[r.Intn(2)]})
				desc += fmt.Sprintf("cut-beyond-the-box(%d) ", j)
			case 2:
				ops[j] = sdf.Difference2D(ops[j], boxAt(b[0]-1, b[1]-1, b[2]+1, b[3]+1))
				desc += fmt.Sprintf("minus-a-bigger-box(%d) ", j)
			default:
				ops[j] = sdf.Intersect2D(ops[j], boxAt(b[2]+3, b[3]+2, b[2]+4, b[3]+5))
				desc += fmt.Sprintf("intersected-with-a-far-box(%d) ", j)
			}
		}
		k := 0.0
		kn := 0
		if r.Intn(3) > 0 {
			k = math.Pow(10, r.Float64()*2.3-1.3) // 0.05 .. 10
			kn = 1
			desc += "k=" + trimFloat(k)
		}
		u := realUnion(ops, k)
		o := uniObs16{Ev: "unir", Kn: kn, Kd: 1, Idx: idx, Desc: desc}
		if idx%5 == 3 && len(ops) >= 3 {
			// a union as an operand of a union; the inner one gets its blend AFTER the outer one was built (the
			// outer union must keep referring to the operand it was given, not to a snapshot of its parts)
			inner := sdf.Union2D(ops[0], ops[1])
			rest := append([]sdf.SDF2{inner}, ops[2:]...)
			u = realUnion(rest, 0)
			kin := math.Pow(10, r.Float64()*1.3-1)
			if iu, ok := inner.(*sdf.UnionSDF2); ok && r.Intn(3) > 0 {
				iu.SetMin(sdf.PolyMin(kin))
				o.Desc += fmt.Sprintf("nested(0,1) inner-blend-set-afterwards k=%s ", trimFloat(kin))
			} else {
				o.Desc += "nested(0,1) "
			}
			o.Kn, o.Kd = 0, 1
			o.operands = rest
		} else {
			o.operands = ops
		}
		if idx%25 == 0 {
			// a point inside one operand and just outside another one that is so small that the square of the
			// distance underflows to zero
			ops = []sdf.SDF2{sdf.Box2D(v2.Vec{X: 2e-170, Y: 2e-170}, 0), sdf.Box2D(v2.Vec{X: 2, Y: 2}, 0)}
			u = realUnion(ops, 0)
			o.Kn, o.operands = 0, ops
			o.Desc = "box(2e-170 x 2e-170) box(2x2) at the origin "
			for _, e := range []float64{1.5e-170, 2e-170, 1e-165, 1e-160, 1e-100} {
				for _, p := range []v2.Vec{{X: e, Y: 0}, {X: 0, Y: -e}, {X: e, Y: e}} {
					o.measure(u, p)
					o.P = append(o.P, []float64{p.X, p.Y})
				}
			}
		}
		for j := 0; j < 80; j++ {
			var p v2.Vec
			if j%2 == 0 {
				p = v2.Vec{X: -4 + r.Float64()*26, Y: -4 + r.Float64()*18}
			} else { // near an operand
				b := bbs[r.Intn(len(bbs))]
				m := 0.3 * (b[2] - b[0] + b[3] - b[1])
				p = v2.Vec{X: snapCoord(r, b[0], b[2], m), Y: snapCoord(r, b[1], b[3], m)}
			}
			o.measure(u, p)
			o.P = append(o.P, []float64{p.X, p.Y})
		}
		emit(o)
	}
	return nil
}

func atoi(s string) int {
	n := 0
	for _, c := range s {
		if c < '0' || c > '9' {
			fatal("bad number %q", s)
		}
		n = n*10 + int(c-'0')
	}
	return n
}

func init() { register("c16-urandom", c16URandom) }
