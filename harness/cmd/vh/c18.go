package main

// C18 - screw threads: database vs designation, unit conversion, lattice helix (handedness).
//
//   c18-names    string literals of the sdf package of the tree under test that ThreadLookup accepts
//   c18-lookup   vectors {name,...} -> projected ThreadParameters (fixed denominators, residuals)
//   c18-lattice  vectors {s,k,zq,rho2} -> sign class of a rectangular-profile Screw3D on the (angle, z) lattice
//
// The harness only projects: lengths are reported as the nearest integer multiple of a FIXED unit that
// does not depend on the expectation (mm: radius in 1/2000 mm, pitch in 1/1000 mm; inch: radius in
// 1/16000 inch, pitch as threads per two inches) together with the relative residual in 1e-12.

import (
	"encoding/json"
	"fmt"
	"go/ast"
	"go/parser"
	"go/token"
	"math"
	"os"
	"path/filepath"
	"runtime/debug"
	"sort"
	"strconv"
	"strings"

	"github.com/deadsy/sdfx/obj"
	"github.com/deadsy/sdfx/sdf"
	v3 "github.com/deadsy/sdfx/vec/v3"
)

const satMax = 1 << 30

// rel12 returns |x/y - 1| in units of 1e-12, saturating.
func rel12(x, y float64) int64 {
	if y == 0 || math.IsNaN(x) || math.IsNaN(y) || math.IsInf(x, 0) {
		return satMax
	}
	r := math.Abs(x/y-1) * 1e12
	if !(r < satMax) {
		return satMax
	}
	return int64(math.Ceil(r - 1e-3))
}

// nearInt returns the nearest integer to x (saturating) and the relative residual in 1e-12.
func nearInt(x float64) (int64, int64) {
	if math.IsNaN(x) || math.Abs(x) > 2e9 {
		return satMax, satMax
	}
	n := math.Round(x)
	if n == 0 {
		r := math.Abs(x) * 1e12
		if !(r < satMax) {
			return 0, satMax
		}
		return 0, int64(math.Ceil(r))
	}
	return int64(n), rel12(x, n)
}

func repoDir() string {
	if bi, ok := debug.ReadBuildInfo(); ok {
		for _, d := range bi.Deps {
			if d.Path == "github.com/deadsy/sdfx" && d.Replace != nil && d.Replace.Path != "" {
				return d.Replace.Path
			}
		}
	}
	if e := os.Getenv("VERIF_REPO"); e != "" {
		return e
	}
	return "/repo"
}

// codeThreadNames scans every string literal of the (non-test) sdf package sources and keeps those
// that the exported lookup accepts: the names of the real database without touching unexported state.
func codeThreadNames() ([]string, int, error) {
	files, err := filepath.Glob(filepath.Join(repoDir(), "sdf", "*.go"))
	if err != nil || len(files) == 0 {
		return nil, 0, fmt.Errorf("no sdf sources under %s", repoDir())
	}
	seen := map[string]bool{}
	lits := 0
	fset := token.NewFileSet()
	for _, fn := range files {
		if strings.HasSuffix(fn, "_test.go") {
			continue
		}
		f, err := parser.ParseFile(fset, fn, nil, 0)
		if err != nil {
			return nil, 0, err
		}
		ast.Inspect(f, func(n ast.Node) bool {
			if bl, ok := n.(*ast.BasicLit); ok && bl.Kind == token.STRING {
				if s, err := strconv.Unquote(bl.Value); err == nil && s != "" {
					lits++
					if _, err := sdf.ThreadLookup(s); err == nil {
						seen[s] = true
					}
				}
			}
			return true
		})
	}
	names := []string{}
	for k := range seen {
		names = append(names, k)
	}
	sort.Strings(names)
	return names, lits, nil
}

func c18Names(args []string) error {
	names, lits, err := codeThreadNames()
	if err != nil {
		return err
	}
	emit(map[string]interface{}{"ev": "names", "names": names, "literals": lits, "repo": repoDir()})
	return nil
}

type lookupVec struct {
	Name string `json:"name"`
	Fam  string `json:"fam"` // "M" | "uncn" | "unfn" | "uncf" | "unff" | "npt"
	A    int    `json:"a"`   // designation tokens (see Threads.tla)
	B    int    `json:"b"`
	Std  string `json:"std"`  // "coarse" | "fine" | "std" | "none"
	ER   int    `json:"er"`   // expected radius in the fixed unit of the family (0 = not determined)
	EP   int    `json:"ep"`   // expected pitch (mm: 1/1000 mm, inch: threads per two inches; 0 = not determined)
	ET   int    `json:"et"`   // expected cot(taper) (0 = untapered)
	Code bool   `json:"code"` // the name was found by the source scan
}

type lookupObs struct {
	Ev    string    `json:"ev"`
	V     lookupVec `json:"v"`
	Found bool      `json:"found"`
	Units string    `json:"units"`
	R     int64     `json:"r"` // radius / unit
	RRes  int64     `json:"rres"`
	P     int64     `json:"p"` // mm: pitch*1000; inch: 2/pitch
	PRes  int64     `json:"pres"`
	TZero bool      `json:"tzero"` // taper == 0
	T     int64     `json:"t"`     // round(1/tan(taper)) if tapered
	TRes  int64     `json:"tres"`
	// ToMillimetre
	MUnits string `json:"munits"`
	MR     int64  `json:"mr"` // |r_mm / (k r) - 1| in 1e-12, k = 25.4 for inch entries and 1 for mm entries
	MP     int64  `json:"mp"`
	MH     int64  `json:"mh"`
	MTaper bool   `json:"mtaper"` // taper and name unchanged
	Idem   bool   `json:"idem"`   // ToMillimetre(ToMillimetre(t)) == ToMillimetre(t) field by field
	Pure   bool   `json:"pure"`   // the database entry itself is not modified by the conversion
	GPure  bool   `json:"gpure"`  // nor by the generators that cut this thread (threaded cylinder, nut, bolt) with a tolerance
	Hex    bool   `json:"hex"`    // hex flat-to-flat > 2 * radius (a head that is wider than the thread)
}

func c18Lookup(args []string) error {
	n := 0
	readVectors("-", func(raw json.RawMessage) {
		var v lookupVec
		if err := json.Unmarshal(raw, &v); err != nil {
			fatal("bad vector: %v", err)
		}
		n++
		o := lookupObs{Ev: "lookup", V: v}
		t, err := sdf.ThreadLookup(v.Name)
		if err != nil || t == nil {
			emit(o)
			return
		}
		o.Found = true
		o.Units = t.Units
		before := *t
		if t.Units == "mm" {
			o.R, o.RRes = nearInt(t.Radius * 2000)
			o.P, o.PRes = nearInt(t.Pitch * 1000)
		} else {
			o.R, o.RRes = nearInt(t.Radius * 16000)
			o.P, o.PRes = nearInt(2 / t.Pitch)
		}
		o.TZero = t.Taper == 0
		if !o.TZero {
			o.T, o.TRes = nearInt(1 / math.Tan(t.Taper))
		}
		m := t.ToMillimetre()
		k := 25.4
		if t.Units == "mm" {
			k = 1
		}
		o.MUnits = m.Units
		o.MR = rel12(m.Radius, k*t.Radius)
		o.MP = rel12(m.Pitch, k*t.Pitch)
		o.MH = rel12(m.HexFlat2Flat, k*t.HexFlat2Flat)
		o.MTaper = m.Taper == t.Taper && m.Name == t.Name
		m2 := m.ToMillimetre()
		o.Idem = *m2 == *m
		o.Pure = *t == before
		o.Hex = t.HexFlat2Flat > 2*t.Radius
		// the generators look the thread up themselves: a later lookup must still find the designation's entry
		hmm := 6 * m.Pitch
		(&obj.ThreadedCylinderParms{Height: hmm, Diameter: 4 * m.Radius, Thread: v.Name, Tolerance: 0.2}).Object()
		obj.Nut(&obj.NutParms{Thread: v.Name, Style: "hex", Tolerance: 0.1})
		obj.Bolt(&obj.BoltParms{Thread: v.Name, Style: "hex", Tolerance: 0.1, TotalLength: hmm, ShankLength: 0})
		t3, err3 := sdf.ThreadLookup(v.Name)
		o.GPure = err3 == nil && *t3 == before && *t == before
		emit(o)
	})
	if n == 0 {
		return fmt.Errorf("no vectors")
	}
	return nil
}

// ---- lattice helix: rectangular thread, pitch 4, root radius 2, tooth |x| < 1 up to radius 3

type latVec struct {
	S    int `json:"s"`    // starts (signed)
	K    int `json:"k"`    // angle = k * 45 degrees
	Zq   int `json:"zq"`   // z = zq / 4
	Rho2 int `json:"rho2"` // radius = rho2 / 2
}

type latObs struct {
	Ev  string `json:"ev"`
	V   latVec `json:"v"`
	Cls int    `json:"cls"` // -1 inside, 0 within 1e-9 of the surface, 1 outside, 9 = construction error
}

func rectProfile() (sdf.SDF2, error) {
	// one polygon: root cylinder of radius 2 over [-5,5], teeth |x|<1 and |x-+4|<1 up to radius 3
	// (the screw evaluates the profile on [-2,2) only; the neighbouring teeth keep the field periodic)
	q := sdf.NewPolygon()
	q.Add(5, 0)
	q.Add(5, 3)
	q.Add(3, 3)
	q.Add(3, 2)
	q.Add(1, 2)
	q.Add(1, 3)
	q.Add(-1, 3)
	q.Add(-1, 2)
	q.Add(-3, 2)
	q.Add(-3, 3)
	q.Add(-5, 3)
	q.Add(-5, 0)
	return sdf.Polygon2D(q.Vertices())
}

func c18Lattice(args []string) error {
	prof, err := rectProfile()
	if err != nil {
		return err
	}
	screws := map[int]sdf.SDF3{}
	n := 0
	readVectors("-", func(raw json.RawMessage) {
		var v latVec
		if err := json.Unmarshal(raw, &v); err != nil {
			fatal("bad vector: %v", err)
		}
		n++
		s, ok := screws[v.S]
		if !ok {
			s, err = sdf.Screw3D(prof, 40, 0, 4, v.S)
			if err != nil {
				s = nil
			}
			screws[v.S] = s
		}
		o := latObs{Ev: "lat", V: v, Cls: 9}
		if s != nil {
			a := float64(v.K) * math.Pi / 4
			rho := float64(v.Rho2) / 2
			q := v3.Vec{X: rho * math.Cos(a), Y: rho * math.Sin(a), Z: float64(v.Zq) / 4}
			// on the coordinate half-planes the point is exact (y = 0 or x = 0, not 1e-16)
			switch ((v.K % 8) + 8) % 8 {
			case 0:
				q.X, q.Y = rho, 0
			case 2:
				q.X, q.Y = 0, rho
			case 4:
				q.X, q.Y = -rho, 0
			case 6:
				q.X, q.Y = 0, -rho
			}
			f := s.Evaluate(q)
			switch {
			case f < -1e-9:
				o.Cls = -1
			case f > 1e-9:
				o.Cls = 1
			default:
				o.Cls = 0
			}
		}
		emit(o)
	})
	if n == 0 {
		return fmt.Errorf("no vectors")
	}
	return nil
}

func init() {
	register("c18-names", c18Names)
	register("c18-lookup", c18Lookup)
	register("c18-lattice", c18Lattice)
}
