package main

// C20 replay: vectors chosen by TLC (DelaunayM / TriSetM) through the REAL render.Delaunay2d,
// render.Delaunay2dSlow, render.TriangleIByIndex.Less and render.TriangleISet.Equals.
// The harness only runs the calls and projects the results (index triples in the numbering of
// the vector, booleans); every comparison that decides the property is made by spec/trace/DelTrace.tla.

import (
	"encoding/json"
	"fmt"
	"hash/fnv"
	"math"
	"math/rand"

	"github.com/deadsy/sdfx/render"
	v2 "github.com/deadsy/sdfx/vec/v2"
)

type c20Vec struct {
	Pts  [][2]int `json:"pts"`  // a point set in input order            -> "dt"
	S    [][3]int `json:"s"`    // a set of index triples                -> "eqs"
	Less int      `json:"less"` // universe size k of canonical triples  -> "less"
	E    int      `json:"e"`    // optional: the real coordinates are pts * 10^-e (manual probes of scale effects)
}

type dtObs struct {
	Ev     string     `json:"ev"`
	Pts    [][2]int   `json:"pts"`
	Fast   [][3]int   `json:"fast"` // Delaunay2d, ids = position in pts
	Slow   [][3]int   `json:"slow"` // Delaunay2dSlow
	Ferr   string     `json:"ferr"` // "" | error | panic text
	Serr   string     `json:"serr"`
	Fseq   bool       `json:"fseq"` // REAL TriangleISet.Equals(fast, slow)
	Copies [][][3]int `json:"copies"`
	Res    []bool     `json:"res"` // REAL TriangleISet.Equals(fast, copies[i])
}

type eqsObs struct {
	Ev     string     `json:"ev"`
	A      [][3]int   `json:"a"`
	Copies [][][3]int `json:"copies"`
	Res    []bool     `json:"res"` // REAL TriangleISet.Equals(a, copies[i])
}

type lessObs struct {
	Ev   string   `json:"ev"`
	K    int      `json:"k"`
	Tris [][3]int `json:"tris"` // canonical triples over 0..k-1, lexicographic
	Rel  [][]int  `json:"rel"`  // rel[i][j] = 1 iff REAL TriangleIByIndex.Less(tris[i], tris[j])
}

func toSet(ts [][3]int) render.TriangleISet {
	r := make(render.TriangleISet, len(ts))
	for i, t := range ts {
		r[i] = render.TriangleI{t[0], t[1], t[2]}
	}
	return r
}

func cloneTris(ts [][3]int) [][3]int {
	r := make([][3]int, len(ts))
	copy(r, ts)
	return r
}

// realEquals calls the real TriangleISet.Equals on private copies (it sorts its arguments in place).
func realEquals(a, b [][3]int) (res bool) {
	defer func() {
		if r := recover(); r != nil {
			res = false
		}
	}()
	return toSet(a).Equals(toSet(b))
}

func realLess(a, b [3]int) bool {
	s := render.TriangleIByIndex{render.TriangleI{a[0], a[1], a[2]}, render.TriangleI{b[0], b[1], b[2]}}
	return s.Less(0, 1)
}

func rot3(t [3]int, r int) [3]int {
	switch r % 3 {
	case 1:
		return [3]int{t[1], t[2], t[0]}
	case 2:
		return [3]int{t[2], t[0], t[1]}
	}
	return t
}

// copiesOf builds copies of the triangle set a: [0] rotations only (same order), [1..np] permuted and
// rotated, last: a genuinely different set (one triangle with its winding flipped), if a is not empty.
func copiesOf(a [][3]int, np int, rng *rand.Rand) [][][3]int {
	out := [][][3]int{}
	c := cloneTris(a)
	for i := range c {
		c[i] = rot3(c[i], 1+rng.Intn(2))
	}
	out = append(out, c)
	for k := 0; k < np; k++ {
		p := rng.Perm(len(a))
		c := make([][3]int, len(a))
		for i := range c {
			c[i] = rot3(a[p[i]], rng.Intn(3))
		}
		out = append(out, c)
	}
	if len(a) > 0 {
		p := rng.Perm(len(a))
		c := make([][3]int, len(a))
		for i := range c {
			c[i] = rot3(a[p[i]], rng.Intn(3))
		}
		j := rng.Intn(len(c))
		c[j] = [3]int{c[j][0], c[j][2], c[j][1]}
		out = append(out, c)
	}
	return out
}

// vecRng: a generator that depends only on the CONTENT of the vector (not on its JSON spelling) and the seed.
func vecRng(v c20Vec) *rand.Rand {
	raw, _ := json.Marshal(v)
	h := fnv.New64a()
	h.Write(raw)
	return rand.New(rand.NewSource(int64(h.Sum64()>>1) ^ seed()*7919))
}

// runFast calls the real Delaunay2d on a private copy. Delaunay2d sorts its argument in place and
// returns indices into the SORTED slice, so the triples are translated back through the coordinates.
func runFast(pts []v2.Vec) (tris [][3]int, errs string) {
	defer func() {
		if r := recover(); r != nil {
			tris, errs = [][3]int{}, fmt.Sprintf("panic: %v", r)
		}
	}()
	vs := make(v2.VecSet, len(pts), len(pts))
	copy(vs, pts)
	id := map[v2.Vec]int{}
	for i, p := range pts {
		id[p] = i
	}
	ts, err := render.Delaunay2d(vs)
	if err != nil {
		return [][3]int{}, "error: " + err.Error()
	}
	out := make([][3]int, 0, len(ts))
	for _, t := range ts {
		var o [3]int
		for k := 0; k < 3; k++ {
			o[k] = 9999 // not an input point (super triangle vertex or out of range)
			if t[k] >= 0 && t[k] < len(vs) {
				if j, ok := id[vs[t[k]]]; ok {
					o[k] = j
				}
			}
		}
		out = append(out, o)
	}
	return out, ""
}

func runSlow(pts []v2.Vec) (tris [][3]int, errs string) {
	defer func() {
		if r := recover(); r != nil {
			tris, errs = [][3]int{}, fmt.Sprintf("panic: %v", r)
		}
	}()
	vs := make(v2.VecSet, len(pts), len(pts))
	copy(vs, pts)
	ts, err := render.Delaunay2dSlow(vs)
	if err != nil {
		return [][3]int{}, "error: " + err.Error()
	}
	out := make([][3]int, 0, len(ts))
	for _, t := range ts {
		out = append(out, [3]int{t[0], t[1], t[2]})
	}
	return out, ""
}

func c20Dt(v c20Vec) dtObs {
	pts := make([]v2.Vec, len(v.Pts))
	for i, p := range v.Pts {
		pts[i] = v2.Vec{X: float64(p[0]) * math.Pow(10, -float64(v.E)), Y: float64(p[1]) * math.Pow(10, -float64(v.E))}
	}
	o := dtObs{Ev: "dt", Pts: v.Pts}
	o.Fast, o.Ferr = runFast(pts)
	o.Slow, o.Serr = runSlow(pts)
	o.Fseq = realEquals(o.Fast, o.Slow)
	o.Copies = copiesOf(o.Fast, 3, vecRng(v))
	o.Res = make([]bool, len(o.Copies))
	for i, c := range o.Copies {
		o.Res[i] = realEquals(o.Fast, c)
	}
	return o
}

func permutations(n int) [][]int {
	if n == 0 {
		return [][]int{{}}
	}
	out := [][]int{}
	var rec func(cur []int, used []bool)
	rec = func(cur []int, used []bool) {
		if len(cur) == n {
			out = append(out, append([]int{}, cur...))
			return
		}
		for i := 0; i < n; i++ {
			if !used[i] {
				used[i] = true
				rec(append(cur, i), used)
				used[i] = false
			}
		}
	}
	rec([]int{}, make([]bool, n))
	return out
}

// c20Eqs: every permutation (at most 4 triangles; otherwise 24 seeded ones) of the set, each with a
// position-dependent rotation pattern, plus one genuinely different set.
func c20Eqs(v c20Vec) eqsObs {
	o := eqsObs{Ev: "eqs", A: v.S}
	rng := vecRng(v)
	n := len(v.S)
	var perms [][]int
	if n <= 4 {
		perms = permutations(n)
	} else {
		for k := 0; k < 24; k++ {
			perms = append(perms, rng.Perm(n))
		}
	}
	for pi, p := range perms {
		c := make([][3]int, n)
		for i := range c {
			c[i] = rot3(v.S[p[i]], i+pi)
		}
		o.Copies = append(o.Copies, c)
	}
	if n > 0 {
		c := cloneTris(v.S)
		j := rng.Intn(n)
		c[j] = [3]int{c[j][0], c[j][2], c[j][1]}
		o.Copies = append(o.Copies, c)
	}
	o.Res = make([]bool, len(o.Copies))
	for i, c := range o.Copies {
		o.Res[i] = realEquals(v.S, c)
	}
	return o
}

func c20Less(k int) lessObs {
	o := lessObs{Ev: "less", K: k}
	for a := 0; a < k; a++ {
		for b := a + 1; b < k; b++ {
			for c := a + 1; c < k; c++ {
				if b != c {
					o.Tris = append(o.Tris, [3]int{a, b, c})
				}
			}
		}
	}
	o.Rel = make([][]int, len(o.Tris))
	for i, a := range o.Tris {
		o.Rel[i] = make([]int, len(o.Tris))
		for j, b := range o.Tris {
			if realLess(a, b) {
				o.Rel[i][j] = 1
			}
		}
	}
	return o
}

func c20Replay(args []string) error {
	n := 0
	readVectors("-", func(raw json.RawMessage) {
		var v c20Vec
		if err := json.Unmarshal(raw, &v); err != nil {
			fatal("bad vector: %v", err)
		}
		switch {
		case v.Pts != nil:
			emit(c20Dt(v))
		case v.S != nil:
			emit(c20Eqs(v))
		case v.Less > 0:
			emit(c20Less(v.Less))
		default:
			fatal("vector of unknown kind: %s", string(raw))
		}
		n++
	})
	if n == 0 {
		return fmt.Errorf("no vectors")
	}
	return nil
}

func init() { register("c20-replay", c20Replay) }
