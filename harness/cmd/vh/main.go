// vh - verification harness for deadsy/sdfx (built with -tags verif against /repo).
//
// Sub-commands read vectors (NDJSON) from stdin or a file and write observations
// (NDJSON) to stdout. The harness only *projects* real behaviour into the
// abstract domain of the TLA+ specification; verdicts are taken by TLC.
package main

import (
	"bufio"
	"encoding/json"
	"fmt"
	"io"
	"os"
	"sort"
	"strconv"
	"sync"
)

type cmdFn func(args []string) error

var cmds = map[string]cmdFn{}

func register(name string, f cmdFn) { cmds[name] = f }

var (
	outMu sync.Mutex
	outW  = bufio.NewWriterSize(os.Stdout, 1<<20)
)

// emit writes one NDJSON line to stdout.
func emit(v interface{}) {
	b, err := json.Marshal(v)
	if err != nil {
		fatal("marshal: %v", err)
	}
	outMu.Lock()
	outW.Write(b)
	outW.WriteByte('\n')
	outMu.Unlock()
}

func flush() {
	outMu.Lock()
	outW.Flush()
	outMu.Unlock()
}

func fatal(f string, a ...interface{}) {
	flush()
	fmt.Fprintf(os.Stderr, "vh: "+f+"\n", a...)
	os.Exit(3)
}

// readVectors decodes NDJSON lines from the named file ("-" = stdin) into fn.
func readVectors(path string, fn func(raw json.RawMessage)) {
	var r io.Reader = os.Stdin
	if path != "-" && path != "" {
		f, err := os.Open(path)
		if err != nil {
			fatal("%v", err)
		}
		defer f.Close()
		r = f
	}
	sc := bufio.NewScanner(r)
	sc.Buffer(make([]byte, 1<<20), 1<<28)
	for sc.Scan() {
		b := sc.Bytes()
		if len(b) == 0 {
			continue
		}
		c := make([]byte, len(b))
		copy(c, b)
		fn(json.RawMessage(c))
	}
	if err := sc.Err(); err != nil {
		fatal("read: %v", err)
	}
}

func seed() int64 {
	s, err := strconv.ParseInt(os.Getenv("VERIF_SEED"), 10, 64)
	if err != nil || s == 0 {
		return 1
	}
	return s
}

func tier() string {
	if os.Getenv("VERIF_TIER") == "thorough" {
		return "thorough"
	}
	return "quick"
}

func main() {
	if len(os.Args) < 2 {
		names := []string{}
		for k := range cmds {
			names = append(names, k)
		}
		sort.Strings(names)
		fmt.Fprintln(os.Stderr, "usage: vh <cmd> [args]; commands:", names)
		os.Exit(2)
	}
	// the library prints progress to stdout; keep stdout for NDJSON only
	realOut := os.Stdout
	devnull, _ := os.OpenFile(os.DevNull, os.O_WRONLY, 0)
	outW = bufio.NewWriterSize(realOut, 1<<20)
	os.Stdout = devnull
	f, ok := cmds[os.Args[1]]
	if !ok {
		fatal("unknown command %q", os.Args[1])
	}
	if err := f(os.Args[2:]); err != nil {
		fatal("%s: %v", os.Args[1], err)
	}
	flush()
}
