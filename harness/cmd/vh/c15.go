package main

// C15 - 3MF, DXF and SVG exports contain exactly the supplied geometry.
//
//   c15-replay   vectors (stdin NDJSON) -> observations (stdout NDJSON)
//     {"fam":"tri","tris":[[9 quarter-ints]...]}   -> To3MF (scripted Render3), decoded with go3mf + raw XML unit
//     {"fam":"seg","segs":[[4 quarter-ints]...]}   -> ToDXF / SaveDXF (decoded with yofu/dxf), ToSVG / SaveSVG (encoding/xml)
//     {"fam":"rnd","seed":..,"i":..}               -> seeded real-valued lists through all five writers, measured
//   The harness only decodes and projects (quarter-integers, hundredths, scaled errors).

import (
	"archive/zip"
	"bytes"
	"encoding/json"
	"encoding/xml"
	"fmt"
	"io"
	"math"
	"math/rand"
	"os"
	"path/filepath"
	"regexp"
	"strconv"
	"strings"

	"github.com/deadsy/sdfx/render"
	"github.com/deadsy/sdfx/sdf"
	v2 "github.com/deadsy/sdfx/vec/v2"
	v3 "github.com/deadsy/sdfx/vec/v3"
	"github.com/hpinc/go3mf"
	"github.com/yofu/dxf"
	"github.com/yofu/dxf/entity"
)

type c15Vec struct {
	Fam  string   `json:"fam"`
	Tris [][9]int `json:"tris"`
	Segs [][4]int `json:"segs"`
	Seed int64    `json:"seed"`
	I    int      `json:"i"`
}

type c15Ent struct {
	T     string `json:"t"`
	Layer string `json:"layer"`
	C     [6]int `json:"c"`
}

type c15Obs struct {
	Ev   string   `json:"ev"` // 3mf | dxf | svg | m3mf | mdxf | msvg
	Kind string   `json:"kind"`
	ID   int      `json:"id"`
	Vec  c15Vec   `json:"vec"`
	Tris [][9]int `json:"tris"`
	Segs [][4]int `json:"segs"`
	Derr int      `json:"derr"` // the file is missing or the independent reader rejects it
	Dmsg string   `json:"dmsg"`
	// 3MF
	Nobj    int      `json:"nobj"`
	Nitems  int      `json:"nitems"`
	ItemOK  int      `json:"itemok"`
	Unit    string   `json:"unit"`
	RawUnit string   `json:"rawunit"`
	Verts   [][3]int `json:"verts"`
	Inexact int      `json:"inexact"`
	Idx     [][3]int `json:"idx"`
	// DXF
	Ents []c15Ent `json:"ents"`
	// SVG (hundredths)
	W      int      `json:"w"`
	H      int      `json:"h"`
	Lines  [][4]int `json:"lines"`
	Styles int      `json:"styles"` // lines carrying the expected style
	Nelem  int      `json:"nelem"`  // XML elements in the document
	// measured (real-valued inputs)
	N        int `json:"n"`
	Cnt      int `json:"cnt"`
	MaxErr   int `json:"maxerr"` // max |decoded - expected| / bound * 1e6
	Nverts   int `json:"nverts"`
	Ndist    int `json:"ndist"`
	Nclus    int `json:"nclus"` // clusters of input vertices closer than 2e-5 + 4 float32 ulps per coordinate
	BadIdx   int `json:"badidx"`
	BadLayer int `json:"badlayer"`
	Mag      int `json:"mag"`
	Over     int `json:"over"` // 1: some input coordinate exceeds 2147.483647 in magnitude (int32 microns)
}

// ---------------------------------------------------------------- scripted renderers

type scriptRender2 struct {
	ls      []*sdf.Line2
	batches []int
}

func (r *scriptRender2) Render(s sdf.SDF2, out sdf.Line2Writer) {
	i := 0
	for _, b := range r.batches {
		out.Write(r.ls[i : i+b])
		i += b
	}
	out.Close()
}
func (r *scriptRender2) Info(s sdf.SDF2) string { return "scripted" }

// ---------------------------------------------------------------- decoders

func quarter(x float64, inexact *int) int {
	q := x * 4
	if q != math.Round(q) || math.Abs(q) > 1<<30 {
		*inexact++
		return 0
	}
	return int(q)
}

var unitRe = regexp.MustCompile(`<model[^>]*\sunit="([^"]*)"`)

type mesh3 struct {
	verts [][3]float32
	idx   [][3]int
}

func decode3MF(path string, o *c15Obs) *mesh3 {
	rd, err := go3mf.OpenReader(path)
	if err != nil {
		o.Derr, o.Dmsg = 1, "open: "+err.Error()
		return nil
	}
	defer rd.Close()
	var m go3mf.Model
	if err := rd.Decode(&m); err != nil {
		o.Derr, o.Dmsg = 1, "decode: "+err.Error()
		return nil
	}
	o.Nobj = len(m.Resources.Objects)
	o.Nitems = len(m.Build.Items)
	o.Unit = m.Units.String()
	// the unit attribute as written, read from the raw part
	if zr, err := zip.OpenReader(path); err == nil {
		for _, f := range zr.File {
			if strings.HasSuffix(f.Name, ".model") {
				if rc, err := f.Open(); err == nil {
					b, _ := io.ReadAll(rc)
					rc.Close()
					if mm := unitRe.FindSubmatch(b); mm != nil {
						o.RawUnit = string(mm[1])
					} else {
						o.RawUnit = "absent"
					}
				}
			}
		}
		zr.Close()
	}
	if o.Nobj < 1 {
		return nil
	}
	ob := m.Resources.Objects[0]
	if o.Nitems >= 1 && m.Build.Items[0].ObjectID == ob.ID {
		o.ItemOK = 1
	}
	ms := &mesh3{}
	if ob.Mesh != nil {
		for _, v := range ob.Mesh.Vertices.Vertex {
			ms.verts = append(ms.verts, [3]float32{v.X(), v.Y(), v.Z()})
		}
		for _, t := range ob.Mesh.Triangles.Triangle {
			ms.idx = append(ms.idx, [3]int{int(t.V1), int(t.V2), int(t.V3)})
		}
	}
	return ms
}

type dxfLine struct {
	typ, layer string
	c          [6]float64
}

func decodeDXF(path string, o *c15Obs) []dxfLine {
	var out []dxfLine
	var d interface {
		Entities() entity.Entities
	}
	func() {
		defer func() {
			if p := recover(); p != nil {
				o.Derr, o.Dmsg = 1, fmt.Sprintf("reader panic: %v", p)
			}
		}()
		dr, err := dxf.FromFile(path)
		if err != nil {
			o.Derr, o.Dmsg = 1, err.Error()
			return
		}
		d = dr
	}()
	if d == nil {
		return nil
	}
	for _, e := range d.Entities() {
		if l, ok := e.(*entity.Line); ok {
			out = append(out, dxfLine{"LINE", l.Layer().Name(), [6]float64{l.Start[0], l.Start[1], l.Start[2], l.End[0], l.End[1], l.End[2]}})
		} else {
			out = append(out, dxfLine{typ: fmt.Sprintf("%T", e)})
		}
	}
	return out
}

type c15SvgLine struct{ X1, Y1, X2, Y2, Style string }

func decodeSVG(path string, o *c15Obs) (w, h string, lines []c15SvgLine) {
	f, err := os.Open(path)
	if err != nil {
		o.Derr, o.Dmsg = 1, err.Error()
		return
	}
	defer f.Close()
	dec := xml.NewDecoder(f)
	dec.Strict = true
	for {
		tok, err := dec.Token()
		if err == io.EOF {
			break
		}
		if err != nil {
			o.Derr, o.Dmsg = 1, err.Error()
			return
		}
		se, ok := tok.(xml.StartElement)
		if !ok {
			continue
		}
		o.Nelem++
		at := map[string]string{}
		for _, a := range se.Attr {
			at[a.Name.Local] = a.Value
		}
		switch se.Name.Local {
		case "svg":
			w, h = at["width"], at["height"]
		case "line":
			lines = append(lines, c15SvgLine{at["x1"], at["y1"], at["x2"], at["y2"], at["style"]})
		}
	}
	return
}

var fixed2 = regexp.MustCompile(`^(-?)(\d+)\.(\d\d)$`)

// hundredths parses a decimal with exactly two decimals into an integer number of hundredths.
func hundredths(s string, inexact *int) int {
	m := fixed2.FindStringSubmatch(s)
	if m == nil || len(m[2]) > 7 {
		*inexact++
		return 0
	}
	v, _ := strconv.Atoi(m[2] + m[3])
	if m[1] == "-" {
		v = -v
	}
	return v
}

const svgStyle = "fill:none;stroke:black;stroke-width:0.1"

// ---------------------------------------------------------------- exact vectors

func c15Batches(n int, r *rand.Rand) []int {
	bs := []int{}
	for n > 0 {
		b := 1 + r.Intn(n)
		bs = append(bs, b)
		n -= b
	}
	return bs
}

func c15Tri(v c15Vec, id int, dir string, r *rand.Rand) []c15Obs {
	var ts []*sdf.Triangle3
	for _, t := range v.Tris {
		var f [9]float64
		for i := range f {
			f[i] = float64(t[i]) / 4
		}
		ts = append(ts, &sdf.Triangle3{{X: f[0], Y: f[1], Z: f[2]}, {X: f[3], Y: f[4], Z: f[5]}, {X: f[6], Y: f[7], Z: f[8]}})
	}
	o := newC15Obs("3mf", "to3mf", id, v)
	p := filepath.Join(dir, "a.3mf")
	os.Remove(p)
	render.To3MF(nil, p, &scriptRender3{ts: ts, batches: c15Batches(len(ts), r)})
	if ms := decode3MF(p, &o); ms != nil {
		for _, x := range ms.verts {
			o.Verts = append(o.Verts, [3]int{quarter(float64(x[0]), &o.Inexact), quarter(float64(x[1]), &o.Inexact), quarter(float64(x[2]), &o.Inexact)})
		}
		o.Idx = append(o.Idx, ms.idx...)
	}
	return []c15Obs{o}
}

func newC15Obs(ev, kind string, id int, v c15Vec) c15Obs {
	if v.Tris == nil {
		v.Tris = [][9]int{}
	}
	if v.Segs == nil {
		v.Segs = [][4]int{}
	}
	return c15Obs{Ev: ev, Kind: kind, ID: id, Vec: v, Tris: v.Tris, Segs: v.Segs, Verts: [][3]int{}, Idx: [][3]int{},
		Ents: []c15Ent{}, Lines: [][4]int{}}
}

func c15Seg(v c15Vec, id int, dir string, r *rand.Rand) []c15Obs {
	var ls []*sdf.Line2
	for _, s := range v.Segs {
		ls = append(ls, &sdf.Line2{{X: float64(s[0]) / 4, Y: float64(s[1]) / 4}, {X: float64(s[2]) / 4, Y: float64(s[3]) / 4}})
	}
	var res []c15Obs
	for _, kind := range []string{"todxf", "savedxf"} {
		o := newC15Obs("dxf", kind, id, v)
		p := filepath.Join(dir, kind+".dxf")
		os.Remove(p)
		if kind == "todxf" {
			render.ToDXF(nil, p, &scriptRender2{ls: ls, batches: c15Batches(len(ls), r)})
		} else if err := render.SaveDXF(p, ls); err != nil {
			o.Derr, o.Dmsg = 1, "SaveDXF: "+err.Error()
		}
		for _, e := range decodeDXF(p, &o) {
			ent := c15Ent{T: e.typ, Layer: e.layer}
			for k := range e.c {
				ent.C[k] = quarter(e.c[k], &o.Inexact)
			}
			o.Ents = append(o.Ents, ent)
		}
		res = append(res, o)
	}
	for _, kind := range []string{"tosvg", "savesvg"} {
		o := newC15Obs("svg", kind, id, v)
		p := filepath.Join(dir, kind+".svg")
		os.Remove(p)
		if kind == "tosvg" {
			render.ToSVG(nil, p, &scriptRender2{ls: ls, batches: c15Batches(len(ls), r)})
		} else if err := render.SaveSVG(p, svgStyle, ls); err != nil {
			o.Derr, o.Dmsg = 1, "SaveSVG: "+err.Error()
		}
		w, h, lines := decodeSVG(p, &o)
		if o.Derr == 0 {
			o.W, o.H = hundredths(w, &o.Inexact), hundredths(h, &o.Inexact)
			for _, l := range lines {
				o.Lines = append(o.Lines, [4]int{hundredths(l.X1, &o.Inexact), hundredths(l.Y1, &o.Inexact),
					hundredths(l.X2, &o.Inexact), hundredths(l.Y2, &o.Inexact)})
				if l.Style == svgStyle {
					o.Styles++
				}
			}
		}
		res = append(res, o)
	}
	return res
}

// ---------------------------------------------------------------- measured, real-valued lists

func scaled(err, bound float64) int {
	x := err / bound * 1e6
	if math.IsNaN(x) || x > 2e9 {
		return 2000000000
	}
	return int(math.Ceil(x))
}

func c15Rnd(v c15Vec, id int, dir string) []c15Obs {
	r := rand.New(rand.NewSource(v.Seed*1000003 + int64(v.I)*13 + 5))
	mag := r.Intn(7)
	scale := []float64{1e-5, 1, 50, 1500, 2e5, 1e-10, 3e-12}[mag]
	coord := func() float64 {
		// now and then a signed zero or a value that underflows to one in float32: the same point may be
		// supplied as +0 and as -0
		switch r.Intn(16) {
		case 14: // exact binary ties at two decimals (x.125, x.375, ...) and eighths in general
			return float64(r.Intn(4000)-2000) / 8
		case 15: // three-decimal values (half of them end in 5: next to a two-decimal rounding boundary)
			return float64(r.Intn(40000)-20000) / 1000
		case 0:
			return 0
		case 1:
			return math.Copysign(0, -1)
		case 2:
			return 1e-60
		case 3:
			return -1e-60
		}
		return r.NormFloat64() * scale
	}
	var res []c15Obs
	// ---- 3MF: triangles over a pool of points (shared vertices)
	np := 3 + r.Intn(6)
	pool := make([]v3.Vec, np)
	for i := range pool {
		pool[i] = v3.Vec{X: coord(), Y: coord(), Z: coord()}
	}
	if r.Intn(3) == 0 {
		// the same point twice, once with +0 and once with -0 (or values that underflow to them)
		i, j := r.Intn(np), r.Intn(np)
		if i != j {
			z := []float64{0, 1e-60}[r.Intn(2)]
			pool[i].X, pool[j] = z, pool[i]
			pool[j].X = -z
			pool[i].X = z
		}
	}
	nt := r.Intn(8)
	if v.I%5 == 0 {
		// more triangles than one buffer flush (256): the writer receives several batches, and vertices are
		// shared across the batch boundaries
		nt = 257 + r.Intn(500)
	}
	var ts []*sdf.Triangle3
	dist := map[[3]float32]bool{}
	for i := 0; i < nt; i++ {
		var t sdf.Triangle3
		for k := 0; k < 3; k++ {
			t[k] = pool[r.Intn(np)]
			dist[[3]float32{float32(t[k].X), float32(t[k].Y), float32(t[k].Z)}] = true
		}
		ts = append(ts, &t)
	}
	o := newC15Obs("m3mf", "to3mf", id, v)
	o.Mag, o.N, o.Ndist = mag, nt, len(dist)
	o.Nclus = clusters3(dist)
	for _, t := range ts {
		for k := 0; k < 3; k++ {
			if math.Max(math.Abs(t[k].X), math.Max(math.Abs(t[k].Y), math.Abs(t[k].Z))) >= 2147.483647 {
				o.Over = 1
			}
		}
	}
	p := filepath.Join(dir, "m.3mf")
	c15Prefill(p, v.I)
	render.To3MF(nil, p, &scriptRender3{ts: ts, batches: c15Batches(nt, r)})
	if ms := decode3MF(p, &o); ms != nil {
		o.Cnt, o.Nverts = len(ms.idx), len(ms.verts)
		for i, ix := range ms.idx {
			for k := 0; k < 3; k++ {
				if ix[k] < 0 || ix[k] >= len(ms.verts) || i >= nt {
					o.BadIdx++
					continue
				}
				in := [3]float64{ts[i][k].X, ts[i][k].Y, ts[i][k].Z}
				for a := 0; a < 3; a++ {
					want := float64(float32(in[a]))
					bound := 0.5e-4 + math.Abs(want)*math.Ldexp(1, -22)
					if e := scaled(math.Abs(float64(ms.verts[ix[k]][a])-want), bound); e > o.MaxErr {
						o.MaxErr = e
					}
				}
			}
		}
	}
	res = append(res, o)
	// ---- DXF and SVG: segments
	ns := r.Intn(8)
	var ls []*sdf.Line2
	for i := 0; i < ns; i++ {
		ls = append(ls, &sdf.Line2{v2.Vec{X: coord(), Y: coord()}, v2.Vec{X: coord(), Y: coord()}})
	}
	if ns > 0 && v.I%4 == 1 {
		// mixed magnitudes in one drawing: one end point far away (the extent is then ~1e15 while the detail is ~scale)
		k := r.Intn(ns)
		ls[k][r.Intn(2)].Y = -1e15 * (1 + r.Float64())
		if r.Intn(2) == 0 {
			ls[r.Intn(ns)][r.Intn(2)].X = 3e13 * (1 + r.Float64())
		}
	}
	for _, kind := range []string{"todxf", "savedxf", "dxfobj", "dxftwo"} {
		o := newC15Obs("mdxf", kind, id, v)
		o.Mag, o.N = mag, ns
		p := filepath.Join(dir, "m.dxf")
		c15Prefill(p, v.I)
		switch kind {
		case "todxf":
			render.ToDXF(nil, p, &scriptRender2{ls: ls, batches: c15Batches(ns, r)})
		case "savedxf":
			if err := render.SaveDXF(p, ls); err != nil {
				o.Derr, o.Dmsg = 1, "SaveDXF: "+err.Error()
			}
		case "dxftwo":
			// two drawings alive at the same time, filled alternately: each file holds its own segments only
			d1 := render.NewDXF(p)
			d2 := render.NewDXF(filepath.Join(dir, "other.dxf"))
			for i, l := range ls {
				d1.Line(l)
				d2.Line(&sdf.Line2{{X: 700000 + float64(i), Y: 1}, {X: 700000 + float64(i), Y: 2}})
				if i%3 == 0 {
					d2.Line(&sdf.Line2{{X: 800000 + float64(i), Y: 1}, {X: 800000 + float64(i), Y: 2}})
				}
			}
			if err := d2.Save(); err != nil {
				o.Derr, o.Dmsg = 1, "DXF.Save (second drawing): "+err.Error()
			}
			if err := d1.Save(); err != nil {
				o.Derr, o.Dmsg = 1, "DXF.Save: "+err.Error()
			}
		default:
			// the drawing object used step by step: points first (they go to their own layer), then the segments,
			// one by one and as a list
			d := render.NewDXF(p)
			if v.I%2 == 0 {
				d.Points(v2.VecSet{{X: 1, Y: 2}, {X: -3, Y: 0.5}}, 0.25)
			}
			h := ns / 2
			for _, l := range ls[:h] {
				d.Line(l)
			}
			if v.I%4 == 1 {
				d.Points(v2.VecSet{{X: 0, Y: 0}}, 0.1)
			}
			d.Lines(ls[h:])
			if err := d.Save(); err != nil {
				o.Derr, o.Dmsg = 1, "DXF.Save: "+err.Error()
			}
		}
		ents := decodeDXF(p, &o)
		if kind == "dxfobj" {
			// only the LINE entities are the segments (the points are circles on their own layer)
			var le []dxfLine
			for _, e := range ents {
				if e.typ == "LINE" {
					le = append(le, e)
				}
			}
			ents = le
		}
		o.Cnt = len(ents)
		for i, e := range ents {
			if e.typ != "LINE" || e.layer != "Lines" {
				o.BadLayer++
			}
			if i >= ns {
				continue
			}
			want := [6]float64{ls[i][0].X, ls[i][0].Y, 0, ls[i][1].X, ls[i][1].Y, 0}
			for a := 0; a < 6; a++ {
				bound := 0.5e-16 + math.Abs(want[a])*4.5e-16 // the writer prints 16 decimals
				if x := scaled(math.Abs(e.c[a]-want[a]), bound); x > o.MaxErr {
					o.MaxErr = x
				}
			}
		}
		res = append(res, o)
	}
	for _, kind := range []string{"tosvg", "savesvg"} {
		o := newC15Obs("msvg", kind, id, v)
		o.Mag, o.N = mag, ns
		p := filepath.Join(dir, "m.svg")
		c15Prefill(p, v.I)
		if kind == "tosvg" {
			render.ToSVG(nil, p, &scriptRender2{ls: ls, batches: c15Batches(ns, r)})
		} else if err := render.SaveSVG(p, svgStyle, ls); err != nil {
			o.Derr, o.Dmsg = 1, "SaveSVG: "+err.Error()
		}
		w, h, lines := decodeSVG(p, &o)
		o.Cnt = len(lines)
		if o.Derr == 0 {
			minx, miny, maxx, maxy := math.Inf(1), math.Inf(1), math.Inf(-1), math.Inf(-1)
			for _, l := range ls {
				for k := 0; k < 2; k++ {
					minx, maxx = math.Min(minx, l[k].X), math.Max(maxx, l[k].X)
					miny, maxy = math.Min(miny, l[k].Y), math.Max(maxy, l[k].Y)
				}
			}
			if ns == 0 {
				minx, miny, maxx, maxy = 0, 0, 0, 0
			}
			ext := math.Max(maxx-minx, maxy-miny) + math.Abs(minx) + math.Abs(maxy)
			cmp := func(s string, want float64) {
				var got float64
				if _, err := fmt.Sscan(s, &got); err != nil {
					o.Inexact++
					return
				}
				// two decimals are printed; the value itself is ONE float64 subtraction of two inputs, so the text
				// must be exactly the two-decimal rendering of that value (ties included)
				bound := 0.5e-2 + math.Abs(want)*4e-16
				_ = ext
				if exp := fmt.Sprintf("%.2f", want); exp != s && !(want == 0 && (s == "0.00" || s == "-0.00")) {
					if x := scaled(1, 1e-3); x > o.MaxErr { // not the two-decimal rendering of the value
						o.MaxErr = x
					}
				}
				if x := scaled(math.Abs(got-want), bound); x > o.MaxErr {
					o.MaxErr = x
				}
			}
			cmp(w, maxx-minx)
			cmp(h, maxy-miny)
			for i, l := range lines {
				if i >= ns {
					break
				}
				cmp(l.X1, ls[i][0].X-minx)
				cmp(l.Y1, maxy-ls[i][0].Y)
				cmp(l.X2, ls[i][1].X-minx)
				cmp(l.Y2, maxy-ls[i][1].Y)
				if l.Style == svgStyle {
					o.Styles++
				}
			}
		}
		res = append(res, o)
	}
	return res
}

// c15Prefill: the output path either does not exist or already holds a (much) longer file of the same kind of
// content - an export has to replace what is there, not write over its beginning.
func c15Prefill(p string, i int) {
	os.Remove(p)
	switch {
	case i%6 == 3:
		// a longer, well-formed file of the SAME kind written by the library itself (a stale tail of it would still
		// parse: extra lines / entities / records)
		var ls []*sdf.Line2
		var ts []*sdf.Triangle3
		for k := 0; k < 1500; k++ {
			x := float64(900000 + k)
			ls = append(ls, &sdf.Line2{{X: x, Y: 0}, {X: x, Y: 1}})
			ts = append(ts, &sdf.Triangle3{{X: x, Y: 0, Z: 0}, {X: x, Y: 1, Z: 0}, {X: x, Y: 0, Z: 1}})
		}
		switch {
		case strings.HasSuffix(p, ".svg"):
			render.SaveSVG(p, "fill:none;stroke:black;stroke-width:0.1", ls)
		case strings.HasSuffix(p, ".dxf"):
			render.SaveDXF(p, ls)
		case strings.HasSuffix(p, ".stl"):
			render.SaveSTL(p, ts)
		default:
			os.WriteFile(p, bytes.Repeat([]byte("PK\x03\x04 an earlier, longer export "), 6000), 0644)
		}
	case i%3 == 0:
		junk := bytes.Repeat([]byte("<!-- an earlier, longer export -->\n0\nSECTION\nPK\x03\x04 stale "), 6000)
		os.WriteFile(p, junk, 0644)
	}
}

// clusters3 counts single-linkage clusters of points whose coordinates all differ by less than
// 2e-5 + 4 float32 ulps (a de-duplication may merge such points: they print alike at four decimals or nearly so).
func clusters3(set map[[3]float32]bool) int {
	var pts [][3]float32
	for p := range set {
		pts = append(pts, p)
	}
	par := make([]int, len(pts))
	for i := range par {
		par[i] = i
	}
	var find func(int) int
	find = func(i int) int {
		if par[i] != i {
			par[i] = find(par[i])
		}
		return par[i]
	}
	for i := range pts {
		for j := i + 1; j < len(pts); j++ {
			near := true
			for a := 0; a < 3; a++ {
				x, y := float64(pts[i][a]), float64(pts[j][a])
				if math.Abs(x-y) > 2e-5+math.Ldexp(math.Max(math.Abs(x), math.Abs(y)), -21) {
					near = false
				}
			}
			if near {
				par[find(i)] = find(j)
			}
		}
	}
	n := 0
	for i := range par {
		if find(i) == i {
			n++
		}
	}
	return n
}

func c15Replay(args []string) error {
	dir, err := os.MkdirTemp("", "vh-c15-")
	if err != nil {
		return err
	}
	defer os.RemoveAll(dir)
	n := 0
	readVectors("-", func(raw json.RawMessage) {
		var v c15Vec
		if err := json.Unmarshal(raw, &v); err != nil {
			fatal("bad vector: %v", err)
		}
		r := rand.New(rand.NewSource(seed()*77 + int64(n)))
		var obs []c15Obs
		switch v.Fam {
		case "tri":
			obs = c15Tri(v, n, dir, r)
		case "seg":
			obs = c15Seg(v, n, dir, r)
		case "rnd":
			obs = c15Rnd(v, n, dir)
		default:
			fatal("c15: unknown family %q", v.Fam)
		}
		for _, o := range obs {
			emit(o)
		}
		n++
	})
	if n == 0 {
		return fmt.Errorf("no vectors")
	}
	return nil
}

func init() { register("c15-replay", c15Replay) }
