package main

// C04, clipper part: the vectors of spec/ClipM.tla (node box [0,2K]^2, segment with lattice end points,
// expected pieces of the four children as exact fractions) are given to the REAL Box2.lineIntersect and
// quad0..quad3 (read-only exports under the verif tag), at several scales and offsets and with end points
// moved by about the clipper's snapping distance.  What is reported:
//   pat    which children got a piece (bit i = child i)
//   perr   largest distance of a returned end point from the expected one
//   gap    longest part of the segment that no child got
//   stray  largest distance of a returned end point from the segment or from its child's box
//   align  every piece runs in the direction of the segment
// distances in units of 1e-3 x the clipper's snapping distance max(1e-9, 1e-14 x largest coordinate).

import (
	"encoding/json"
	"math"
	"sort"

	"github.com/deadsy/sdfx/sdf"
	v2 "github.com/deadsy/sdfx/vec/v2"
)

type clipVec struct {
	K     int     `json:"k"`
	P     []int   `json:"p"`
	Q     []int   `json:"q"`
	Pat   int     `json:"pat"`
	Owned int     `json:"owned"`
	T     [][]int `json:"t"`
}

type clipObs struct {
	Ev    string   `json:"ev"`
	K     int      `json:"k"`
	P     []int    `json:"p"`
	Q     []int    `json:"q"`
	Var   []int    `json:"var"`   // variant ids
	Exact []int    `json:"exact"` // 1: dyadic placement, end points not moved (pattern and end points are judged)
	Pat   []int    `json:"pat"`
	Perr  []int64  `json:"perr"`
	Gap   []int64  `json:"gap"`
	Gap2  []int64  `json:"gap2"` // the same after clipping every piece twice more (children of the child, and theirs)
	Stray []int64  `json:"stray"`
	Align []int    `json:"align"`
	Desc  []string `json:"desc,omitempty"` // report only
}

type clipPlace struct {
	u      float64
	ox, oy float64
	exact  bool
}

var clipPlaces = []clipPlace{
	{1, 0, 0, true},
	{0.25, -3.5, 7.25, true},
	{1.0 / 1024, 1024, -2048, true},
	{8, -1048576, 524288, true},
	{0.1, 0.3, -0.7, false},
	{37.3, 10000.1, -20000.7, false},
}

func satU(x float64) int64 {
	x = math.Abs(x) * 1000
	if math.IsNaN(x) || x > 1e12 {
		return 1000000000000
	}
	return int64(math.Floor(x))
}

func clipMeasure(v clipVec, variant int, o *clipObs) {
	pl := clipPlaces[variant%len(clipPlaces)]
	moved := variant >= len(clipPlaces)
	at := func(c []int) v2.Vec { return v2.Vec{X: pl.ox + float64(c[0])*pl.u, Y: pl.oy + float64(c[1])*pl.u} }
	box := sdf.Box2{Min: v2.Vec{X: pl.ox, Y: pl.oy}, Max: v2.Vec{X: pl.ox + float64(2*v.K)*pl.u, Y: pl.oy + float64(2*v.K)*pl.u}}
	p, q := at(v.P), at(v.Q)
	m := math.Max(math.Max(math.Abs(box.Min.X), math.Abs(box.Min.Y)), math.Max(math.Abs(box.Max.X), math.Abs(box.Max.Y)))
	unit := math.Max(1e-9, 1e-14*m)
	if variant >= 100 {
		// a segment ALONG a split line: one end moved off the line by a little less / more than the snapping
		// distance, to either side (the piece in a child then runs along the child's edge within the tolerance)
		c := variant - 100
		pl = clipPlaces[(c/16)%2]
		box = sdf.Box2{Min: v2.Vec{X: pl.ox, Y: pl.oy}, Max: v2.Vec{X: pl.ox + float64(2*v.K)*pl.u, Y: pl.oy + float64(2*v.K)*pl.u}}
		p, q = at(v.P), at(v.Q)
		m = math.Max(math.Max(math.Abs(box.Min.X), math.Abs(box.Min.Y)), math.Max(math.Abs(box.Max.X), math.Abs(box.Max.Y)))
		unit = math.Max(1e-9, 1e-14*m)
		dl := []float64{5e-10, -5e-10, 1.5e-9, -1.5e-9, 2.5e-9, -2.5e-9, 3.5e-9, -3.5e-9}[c%8]
		tgt := &p
		if (c/8)%2 == 1 {
			tgt = &q
		}
		if v.P[0] == v.Q[0] {
			tgt.X += dl
		} else {
			tgt.Y += dl
		}
		moved = true
	} else if moved {
		// one coordinate of one end point moved by about the snapping distance (kept inside the node box)
		h := v.P[0]*7 + v.P[1]*13 + v.Q[0]*17 + v.Q[1]*19 + variant*23
		size := float64(2*v.K) * pl.u
		dl := []float64{5e-10, 1.5e-9, 4e-9, 1e-9 * size, 1e-8 * size, 0.3 * unit, 3 * unit}[h%7]
		if (h/7)%2 == 1 {
			dl = -dl
		}
		tgt := &p
		if (h/14)%2 == 1 {
			tgt = &q
		}
		if (h/28)%2 == 0 {
			if tgt.X+dl > box.Max.X || tgt.X+dl < box.Min.X {
				dl = -dl
			}
			tgt.X += dl
		} else {
			if tgt.Y+dl > box.Max.Y || tgt.Y+dl < box.Min.Y {
				dl = -dl
			}
			tgt.Y += dl
		}
	}
	d := q.Sub(p)
	l2 := d.Dot(d)
	ln := math.Sqrt(l2)
	quads := sdf.VerifQuads(box)
	pat := 0
	perr, stray := 0.0, 0.0
	align := 1
	type iv struct{ a, b float64 }
	var ivs, ivs2 []iv
	for i := 0; i < 4; i++ {
		r := sdf.VerifLineIntersect(quads[i], &sdf.Line2{p, q})
		if r == nil {
			continue
		}
		pat |= 1 << i
		if r[1].Sub(r[0]).Dot(d) <= 0 {
			align = 0
		}
		var ts [2]float64
		for j := 0; j < 2; j++ {
			w := r[j].Sub(p)
			ts[j] = w.Dot(d) / l2
			// distance from the segment's line, beyond its ends, and from the child's box
			perp := math.Abs(w.X*d.Y-w.Y*d.X) / ln
			over := math.Max(0, math.Max(-ts[j], ts[j]-1)) * ln
			b := quads[i]
			out := math.Max(math.Max(b.Min.X-r[j].X, r[j].X-b.Max.X), math.Max(b.Min.Y-r[j].Y, r[j].Y-b.Max.Y))
			stray = math.Max(stray, math.Max(perp, math.Max(over, out)))
		}
		ivs = append(ivs, iv{math.Min(ts[0], ts[1]), math.Max(ts[0], ts[1])})
		// two more levels: the piece as the child hands it to its own children, and they to theirs
		for _, sub := range sdf.VerifQuads(quads[i]) {
			r2 := sdf.VerifLineIntersect(sub, r)
			if r2 == nil {
				continue
			}
			for _, sub3 := range sdf.VerifQuads(sub) {
				r3 := sdf.VerifLineIntersect(sub3, r2)
				if r3 == nil {
					continue
				}
				a, b := r3[0].Sub(p).Dot(d)/l2, r3[1].Sub(p).Dot(d)/l2
				ivs2 = append(ivs2, iv{math.Min(a, b), math.Max(a, b)})
			}
		}
		if !moved && pl.exact && i < len(v.T) && len(v.T[i]) == 4 {
			for j := 0; j < 2; j++ {
				t := float64(v.T[i][2*j]) / float64(v.T[i][2*j+1])
				e := p.Add(d.MulScalar(t))
				perr = math.Max(perr, r[j].Sub(e).Length())
			}
		}
	}
	longest := func(ivs []iv) float64 {
		sort.Slice(ivs, func(a, b int) bool { return ivs[a].a < ivs[b].a })
		gap, reach := 0.0, 0.0
		for _, x := range ivs {
			if x.a > reach {
				gap = math.Max(gap, x.a-reach)
			}
			reach = math.Max(reach, x.b)
		}
		if reach < 1 {
			gap = math.Max(gap, 1-reach)
		}
		return gap
	}
	gap, gap2 := longest(ivs), longest(ivs2)
	ex := 0
	if !moved && pl.exact {
		ex = 1
	}
	o.Var = append(o.Var, variant)
	o.Exact = append(o.Exact, ex)
	o.Pat = append(o.Pat, pat)
	o.Perr = append(o.Perr, satU(perr/unit))
	o.Gap = append(o.Gap, satU(gap*ln/unit))
	o.Gap2 = append(o.Gap2, satU(gap2*ln/unit))
	o.Stray = append(o.Stray, satU(stray/unit))
	o.Align = append(o.Align, align)
	o.Desc = append(o.Desc, fmtf(box.Min.X, box.Min.Y, box.Max.X, box.Max.Y, p.X, p.Y, q.X, q.Y))
}

func c04Clip(args []string) error {
	readVectors("-", func(raw json.RawMessage) {
		var v clipVec
		if err := json.Unmarshal(raw, &v); err != nil {
			fatal("bad vector: %v", err)
		}
		o := clipObs{Ev: "clip", K: v.K, P: v.P, Q: v.Q}
		for variant := 0; variant < len(clipPlaces)+4; variant++ {
			if variant >= len(clipPlaces) && v.Owned == 0 {
				continue
			}
			clipMeasure(v, variant, &o)
		}
		if v.Owned == 1 && ((v.P[0] == v.Q[0] && v.P[0] == v.K) || (v.P[1] == v.Q[1] && v.P[1] == v.K)) {
			for c := 0; c < 32; c++ {
				clipMeasure(v, 100+c, &o)
			}
		}
		emit(o)
	})
	return nil
}

func init() { register("c04-clip", c04Clip) }
