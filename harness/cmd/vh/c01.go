package main

// C01/C02/C03 stage 1: programs (expression trees) of spec/CSG.tla rebuilt with the REAL
// constructors of sdf/sdf2.go and sdf/sdf3.go; logs BoundingBox() and Evaluate() on the integer
// window chosen by the specification.  The harness only projects; spec/trace/CSGTrace.tla judges.

import (
	"encoding/json"
	"fmt"
	"math"

	"github.com/deadsy/sdfx/sdf"
	v2 "github.com/deadsy/sdfx/vec/v2"
	"github.com/deadsy/sdfx/vec/v2i"
	v3 "github.com/deadsy/sdfx/vec/v3"
	"github.com/deadsy/sdfx/vec/v3i"
)

type csgNode struct {
	Op string    `json:"op"`
	A  []int     `json:"a"`
	K  []csgNode `json:"k"`
}

type csgVec struct {
	ID    int     `json:"id"`
	Dim   int     `json:"dim"`
	E     csgNode `json:"e"`
	W     []int   `json:"w"`
	Slow  int     `json:"slow"` // 1: Union2D nodes are evaluated with EvaluateSlow (no box pruning)
	Lip   int     `json:"lip"`
	Exact int     `json:"exact"`
}

type csgObs struct {
	Ev  string  `json:"ev"`
	ID  int     `json:"id"`
	Dim int     `json:"dim"`
	E   csgNode `json:"e"`
	W   []int   `json:"w"`
	Err string  `json:"err"`
	Fin int     `json:"fin"` // 1: every box coordinate is finite
	BB  []int   `json:"bb"`  // outward rounded, units 2^-10 (min..., max...)
	V   []int   `json:"v"`   // Evaluate on the window, units 1e-6; 0 iff |f| <= 1e-9
	NaN int     `json:"nan"` // number of NaN results
	// slow = 2 only: window points where a Union2D's pruned value differs from EvaluateSlow, split by whether the
	// operand holding the minimum undercuts the distance to its own bounding box
	Under int `json:"under"`
	Legit int `json:"legit"`
}

// slowUnion2 evaluates a real UnionSDF2 without its bounding-box pruning (attribution only).
type slowUnion2 struct{ u *sdf.UnionSDF2 }

func (s slowUnion2) Evaluate(p v2.Vec) float64 { return s.u.EvaluateSlow(p) }
func (s slowUnion2) BoundingBox() sdf.Box2     { return s.u.BoundingBox() }

var csgSlowUnion bool

// probeUnion2 (attribution only, slow = 2): evaluates the real union as it is, and where the pruned value differs
// from EvaluateSlow records whether the operand that holds the minimum reports less than the distance to its own
// bounding box (outside it). Only then can pruning by box distance not be exact (the recorded limitation);
// any other difference means a legitimate operand was pruned.
type probeUnion2 struct {
	u    *sdf.UnionSDF2
	c, d sdf.SDF2
}

var csgProbeUnion bool
var csgProbeUnder, csgProbeLegit int

func (s probeUnion2) Evaluate(p v2.Vec) float64 {
	f, sl := s.u.Evaluate(p), s.u.EvaluateSlow(p)
	if f != sl {
		h, hv := s.c, s.c.Evaluate(p)
		if dv := s.d.Evaluate(p); dv < hv {
			h, hv = s.d, dv
		}
		md := math.Sqrt(h.BoundingBox().MinMaxDist2(p)[0])
		if md > 0 && hv < md*(1-1e-9)-1e-12 {
			csgProbeUnder++
		} else {
			csgProbeLegit++
		}
	}
	return f
}
func (s probeUnion2) BoundingBox() sdf.Box2 { return s.u.BoundingBox() }

func fa(a []int, i int) float64 { return float64(a[i]) }

var mirror3 = map[int]func() sdf.M44{1: sdf.MirrorXY, 2: sdf.MirrorXZ, 3: sdf.MirrorYZ, 4: sdf.MirrorXeqY}

func csgBuild2(n csgNode) (sdf.SDF2, error) {
	var c sdf.SDF2
	var c3 sdf.SDF3
	var err error
	if n.Op == "slice2" {
		if c3, err = csgBuild3(n.K[0]); err != nil {
			return nil, err
		}
	} else if len(n.K) >= 1 {
		if c, err = csgBuild2(n.K[0]); err != nil {
			return nil, err
		}
	}
	a := n.A
	switch n.Op {
	case "box2":
		return sdf.Box2D(v2.Vec{X: 2 * fa(a, 0), Y: 2 * fa(a, 1)}, 0), nil
	case "circle":
		return sdf.Circle2D(fa(a, 0))
	case "tr2":
		return sdf.Transform2D(c, sdf.Translate2d(v2.Vec{X: fa(a, 0), Y: fa(a, 1)})), nil
	case "rot2":
		return sdf.Transform2D(c, sdf.Rotate2d(fa(a, 0)*math.Pi/2)), nil
	case "mir2":
		if a[0] == 1 {
			return sdf.Transform2D(c, sdf.MirrorX()), nil
		}
		return sdf.Transform2D(c, sdf.MirrorY()), nil
	case "scale2":
		return sdf.ScaleUniform2D(c, fa(a, 0)), nil
	case "offset2":
		return sdf.Offset2D(c, fa(a, 0)), nil
	case "cut2":
		return sdf.Cut2D(c, v2.Vec{X: fa(a, 0), Y: fa(a, 1)}, v2.Vec{X: fa(a, 2), Y: fa(a, 3)}), nil
	case "elong2":
		return sdf.Elongate2D(c, v2.Vec{X: 2 * fa(a, 0), Y: 2 * fa(a, 1)}), nil
	case "array2":
		return sdf.Array2D(c, v2i.Vec{X: a[0], Y: a[1]}, v2.Vec{X: fa(a, 2), Y: fa(a, 3)}), nil
	case "rotcopy2":
		return sdf.RotateCopy2D(c, a[0]), nil
	case "union2", "diff2", "inter2":
		d, err := csgBuild2(n.K[1])
		if err != nil {
			return nil, err
		}
		switch n.Op {
		case "union2":
			u := sdf.Union2D(c, d)
			if uu, ok := u.(*sdf.UnionSDF2); ok && csgSlowUnion {
				return slowUnion2{uu}, nil
			}
			if uu, ok := u.(*sdf.UnionSDF2); ok && csgProbeUnion {
				return probeUnion2{uu, c, d}, nil
			}
			return u, nil
		case "diff2":
			return sdf.Difference2D(c, d), nil
		}
		return sdf.Intersect2D(c, d), nil
	case "slice2":
		nrm := v3.Vec{}
		switch a[3] {
		case 1:
			nrm.X = 1
		case 2:
			nrm.Y = 1
		default:
			nrm.Z = 1
		}
		return sdf.Slice2D(c3, v3.Vec{X: fa(a, 0), Y: fa(a, 1), Z: fa(a, 2)}, nrm), nil
	}
	return nil, fmt.Errorf("unknown 2D op %q", n.Op)
}

func csgBuild3(n csgNode) (sdf.SDF3, error) {
	var c sdf.SDF3
	var c2 sdf.SDF2
	var err error
	switch n.Op {
	case "extrude", "twist", "revolve":
		if c2, err = csgBuild2(n.K[0]); err != nil {
			return nil, err
		}
	default:
		if len(n.K) >= 1 {
			if c, err = csgBuild3(n.K[0]); err != nil {
				return nil, err
			}
		}
	}
	a := n.A
	switch n.Op {
	case "box3":
		return sdf.Box3D(v3.Vec{X: 2 * fa(a, 0), Y: 2 * fa(a, 1), Z: 2 * fa(a, 2)}, 0)
	case "sphere":
		return sdf.Sphere3D(fa(a, 0))
	case "cyl":
		return sdf.Cylinder3D(2*fa(a, 0), fa(a, 1), 0)
	case "tr3":
		return sdf.Transform3D(c, sdf.Translate3d(v3.Vec{X: fa(a, 0), Y: fa(a, 1), Z: fa(a, 2)})), nil
	case "rot3":
		ang := fa(a, 1) * math.Pi / 2
		switch a[0] {
		case 1:
			return sdf.Transform3D(c, sdf.RotateX(ang)), nil
		case 2:
			return sdf.Transform3D(c, sdf.RotateY(ang)), nil
		}
		return sdf.Transform3D(c, sdf.RotateZ(ang)), nil
	case "mir3":
		return sdf.Transform3D(c, mirror3[a[0]]()), nil
	case "scale3":
		return sdf.ScaleUniform3D(c, fa(a, 0)), nil
	case "offset3":
		return sdf.Offset3D(c, fa(a, 0)), nil
	case "shell3":
		return sdf.Shell3D(c, 2*fa(a, 0))
	case "cut3":
		return sdf.Cut3D(c, v3.Vec{X: fa(a, 0), Y: fa(a, 1), Z: fa(a, 2)}, v3.Vec{X: fa(a, 3), Y: fa(a, 4), Z: fa(a, 5)}), nil
	case "elong3":
		return sdf.Elongate3D(c, v3.Vec{X: 2 * fa(a, 0), Y: 2 * fa(a, 1), Z: 2 * fa(a, 2)}), nil
	case "array3":
		return sdf.Array3D(c, v3i.Vec{X: a[0], Y: a[1], Z: a[2]}, v3.Vec{X: fa(a, 3), Y: fa(a, 4), Z: fa(a, 5)}), nil
	case "rotcopy3":
		return sdf.RotateCopy3D(c, a[0]), nil
	case "union3", "diff3", "inter3":
		d, err := csgBuild3(n.K[1])
		if err != nil {
			return nil, err
		}
		switch n.Op {
		case "union3":
			return sdf.Union3D(c, d), nil
		case "diff3":
			return sdf.Difference3D(c, d), nil
		}
		return sdf.Intersect3D(c, d), nil
	case "extrude":
		return sdf.Extrude3D(c2, 2*fa(a, 0)), nil
	case "twist":
		h := 2 * fa(a, 0)
		return sdf.TwistExtrude3D(c2, h, fa(a, 1)*math.Pi/2*h), nil
	case "revolve":
		if a[0] == 0 {
			return sdf.Revolve3D(c2)
		}
		return sdf.RevolveTheta3D(c2, fa(a, 0)*math.Pi/2)
	}
	return nil, fmt.Errorf("unknown 3D op %q", n.Op)
}

// micro converts a value to units of 1e-6, keeping the sign class w.r.t. +-1e-9.
func micro(f float64) int {
	if math.IsNaN(f) {
		return 0
	}
	if math.Abs(f) <= 1e-9 {
		return 0
	}
	x := math.Round(f * 1e6)
	if x > 2e9 {
		return 2000000000
	}
	if x < -2e9 {
		return -2000000000
	}
	if x == 0 {
		if f < 0 {
			return -1
		}
		return 1
	}
	return int(x)
}

func outward(lo []float64, hi []float64) (bb []int, fin int) {
	fin = 1
	cl := func(x float64) float64 {
		if math.IsNaN(x) || math.IsInf(x, 0) {
			fin = 0
			return 0
		}
		return math.Max(-2e9, math.Min(2e9, x))
	}
	for _, x := range lo {
		bb = append(bb, int(cl(math.Floor(x*1024))))
	}
	for _, x := range hi {
		bb = append(bb, int(cl(math.Ceil(x*1024))))
	}
	return
}

// autoWindow: the real box enlarged by 50% and three cells (used when a sub-program is replayed
// to attribute a rejection to a constructor; the specification did not choose a window for it).
func autoWindow(lo, hi []float64) []int {
	n := len(lo)
	w := make([]int, 2*n)
	for i := 0; i < n; i++ {
		a, b := lo[i], hi[i]
		if math.IsNaN(a) || math.IsInf(a, 0) || math.IsNaN(b) || math.IsInf(b, 0) || a > b {
			a, b = -3, 3
		}
		m := 0.25*(b-a) + 3
		lim := 20.0
		if n == 3 {
			lim = 9
		}
		w[i] = int(math.Max(-lim, math.Floor(a-m)))
		w[i+n] = int(math.Min(lim, math.Ceil(b+m)))
		if w[i] > w[i+n] {
			w[i], w[i+n] = -3, 3
		}
	}
	return w
}

func csgObserve(v csgVec) (o csgObs) {
	o = csgObs{Ev: "csg", ID: v.ID, Dim: v.Dim, E: v.E, W: v.W, BB: []int{}, V: []int{}}
	defer func() {
		if r := recover(); r != nil {
			o.Err = fmt.Sprintf("panic: %v", r)
		}
	}()
	w := v.W
	csgSlowUnion = v.Slow == 1
	csgProbeUnion = v.Slow == 2
	csgProbeUnder, csgProbeLegit = 0, 0
	defer func() { o.Under, o.Legit = csgProbeUnder, csgProbeLegit }()
	if v.Dim == 2 {
		s, err := csgBuild2(v.E)
		if err != nil || s == nil {
			o.Err = fmt.Sprintf("constructor: %v", err)
			return
		}
		b := s.BoundingBox()
		o.BB, o.Fin = outward([]float64{b.Min.X, b.Min.Y}, []float64{b.Max.X, b.Max.Y})
		if len(w) == 0 {
			w = autoWindow([]float64{b.Min.X, b.Min.Y}, []float64{b.Max.X, b.Max.Y})
			o.W = w
		}
		for x := w[0]; x <= w[2]; x++ {
			for y := w[1]; y <= w[3]; y++ {
				f := s.Evaluate(v2.Vec{X: float64(x), Y: float64(y)})
				if math.IsNaN(f) {
					o.NaN++
				}
				o.V = append(o.V, micro(f))
			}
		}
		return
	}
	s, err := csgBuild3(v.E)
	if err != nil || s == nil {
		o.Err = fmt.Sprintf("constructor: %v", err)
		return
	}
	b := s.BoundingBox()
	o.BB, o.Fin = outward([]float64{b.Min.X, b.Min.Y, b.Min.Z}, []float64{b.Max.X, b.Max.Y, b.Max.Z})
	if len(w) == 0 {
		w = autoWindow([]float64{b.Min.X, b.Min.Y, b.Min.Z}, []float64{b.Max.X, b.Max.Y, b.Max.Z})
		o.W = w
	}
	for x := w[0]; x <= w[3]; x++ {
		for y := w[1]; y <= w[4]; y++ {
			for z := w[2]; z <= w[5]; z++ {
				f := s.Evaluate(v3.Vec{X: float64(x), Y: float64(y), Z: float64(z)})
				if math.IsNaN(f) {
					o.NaN++
				}
				o.V = append(o.V, micro(f))
			}
		}
	}
	return
}

func csgReplay(args []string) error {
	n := 0
	readVectors("-", func(raw json.RawMessage) {
		var v csgVec
		if err := json.Unmarshal(raw, &v); err != nil {
			fatal("bad vector: %v", err)
		}
		emit(csgObserve(v))
		n++
	})
	if n == 0 {
		return fmt.Errorf("no vectors")
	}
	return nil
}

func init() { register("csg-replay", csgReplay) }
