package main

// Read-only access to the unexported tables of render/dc (no verif export exists for them and
// /repo is not edited): the linker binds these declarations to the package's own variables, so the
// generated module DCData always holds the tables of the tree under test.

import (
	"fmt"
	"os"
	"path/filepath"
	"strings"
	_ "unsafe" // go:linkname

	_ "github.com/deadsy/sdfx/render/dc"
	"github.com/deadsy/sdfx/vec/v2i"
	v3 "github.com/deadsy/sdfx/vec/v3"
	"github.com/deadsy/sdfx/vec/v3i"
)

//go:linkname dcChildMinOffsets github.com/deadsy/sdfx/render/dc.dcChildMinOffsets
var dcChildMinOffsets [8]v3i.Vec

//go:linkname dcEdgevmap github.com/deadsy/sdfx/render/dc.dcEdgevmap
var dcEdgevmap [12][2]int

//go:linkname dcCellProcFaceMask github.com/deadsy/sdfx/render/dc.dcCellProcFaceMask
var dcCellProcFaceMask [12][3]int

//go:linkname dcCellProcEdgeMask github.com/deadsy/sdfx/render/dc.dcCellProcEdgeMask
var dcCellProcEdgeMask [6][5]int

//go:linkname dcFaceProcFaceMask github.com/deadsy/sdfx/render/dc.dcFaceProcFaceMask
var dcFaceProcFaceMask [3][4][3]int

//go:linkname dcFaceProcEdgeMask github.com/deadsy/sdfx/render/dc.dcFaceProcEdgeMask
var dcFaceProcEdgeMask [3][4][6]int

//go:linkname dcEdgeProcEdgeMask github.com/deadsy/sdfx/render/dc.dcEdgeProcEdgeMask
var dcEdgeProcEdgeMask [3][2][5]int

//go:linkname dcProcessEdgeMask github.com/deadsy/sdfx/render/dc.dcProcessEdgeMask
var dcProcessEdgeMask [3][4]int

//go:linkname dcCorners github.com/deadsy/sdfx/render/dc.dcCorners
var dcCorners []v3.Vec

//go:linkname dcFarEdges github.com/deadsy/sdfx/render/dc.dcFarEdges
var dcFarEdges []v2i.Vec

func tlaInts(xs []int) string {
	s := make([]string, len(xs))
	for i, x := range xs {
		s[i] = fmt.Sprint(x)
	}
	return "<<" + strings.Join(s, ", ") + ">>"
}

func tlaSeq(parts []string) string { return "<<" + strings.Join(parts, ", ") + ">>" }

// c19-extract <dir>: writes DCData.tla
func c19Extract(args []string) error {
	if len(args) < 1 {
		return fmt.Errorf("usage: c19-extract <dir>")
	}
	var b strings.Builder
	b.WriteString("---- MODULE DCData ----\n\\* generated from render/dc of the tree under test\n")
	row := func(name string, rows []string) { fmt.Fprintf(&b, "%s == %s\n", name, tlaSeq(rows)) }
	var r []string
	for _, v := range dcChildMinOffsets {
		r = append(r, tlaInts([]int{v.X, v.Y, v.Z}))
	}
	row("dcChildMinOffsets", r)
	r = nil
	for _, v := range dcEdgevmap {
		r = append(r, tlaInts(v[:]))
	}
	row("dcEdgevmap", r)
	r = nil
	for _, v := range dcCellProcFaceMask {
		r = append(r, tlaInts(v[:]))
	}
	row("dcCellProcFaceMask", r)
	r = nil
	for _, v := range dcCellProcEdgeMask {
		r = append(r, tlaInts(v[:]))
	}
	row("dcCellProcEdgeMask", r)
	r = nil
	for _, m := range dcFaceProcFaceMask {
		var rr []string
		for _, v := range m {
			rr = append(rr, tlaInts(v[:]))
		}
		r = append(r, tlaSeq(rr))
	}
	row("dcFaceProcFaceMask", r)
	r = nil
	for _, m := range dcFaceProcEdgeMask {
		var rr []string
		for _, v := range m {
			rr = append(rr, tlaInts(v[:]))
		}
		r = append(r, tlaSeq(rr))
	}
	row("dcFaceProcEdgeMask", r)
	r = nil
	for _, m := range dcEdgeProcEdgeMask {
		var rr []string
		for _, v := range m {
			rr = append(rr, tlaInts(v[:]))
		}
		r = append(r, tlaSeq(rr))
	}
	row("dcEdgeProcEdgeMask", r)
	r = nil
	for _, v := range dcProcessEdgeMask {
		r = append(r, tlaInts(v[:]))
	}
	row("dcProcessEdgeMask", r)
	r = nil
	for _, v := range dcCorners {
		r = append(r, tlaInts([]int{int(v.X), int(v.Y), int(v.Z)}))
	}
	row("dcCornersV2", r)
	r = nil
	for _, v := range dcFarEdges {
		r = append(r, tlaInts([]int{v.X, v.Y}))
	}
	row("dcFarEdgesV2", r)
	b.WriteString("====\n")
	return os.WriteFile(filepath.Join(args[0], "DCData.tla"), []byte(b.String()), 0o644)
}

func init() { register("c19-extract", c19Extract) }
